package compiler

// gvc end-to-end harness (injected with `go test -overlay`, never written into /repo): compiles a stdlib-free Go
// package with the compiler of this tree, links it with the prelude of this tree, evaluates a JavaScript body under node
// and prints its stdout.  Input: JSON file named by $GVC_E2E_SPEC with fields gosrc, jsbody, minify.

import (
	"bytes"
	"encoding/json"
	"fmt"
	"os"
	"os/exec"
	"path/filepath"
	"testing"

	"github.com/gopherjs/gopherjs/compiler/internal/dce"
	"github.com/gopherjs/gopherjs/compiler/linkname"
	"github.com/gopherjs/gopherjs/compiler/prelude"
	"github.com/gopherjs/gopherjs/internal/sourcemapx"
	"github.com/gopherjs/gopherjs/internal/srctesting"
)

func TestGVCE2E(t *testing.T) {
	raw, err := os.ReadFile(os.Getenv("GVC_E2E_SPEC"))
	if err != nil {
		t.Fatal(err)
	}
	var spec struct {
		GoSrc  string `json:"gosrc"`
		JSBody string `json:"jsbody"`
		Minify bool   `json:"minify"`
		DCE    bool   `json:"dce"`
	}
	if err := json.Unmarshal(raw, &spec); err != nil {
		t.Fatal(err)
	}
	rootPkg := srctesting.ParseSources(t, []srctesting.Source{{Name: "main.go", Contents: []byte(spec.GoSrc)}}, nil)
	archives := compileProject(t, rootPkg, spec.Minify)
	a := archives[rootPkg.PkgPath]
	sel := &dce.Selector[*Decl]{}
	for _, d := range a.Declarations {
		sel.Include(d, true)
	}
	pkgCode := &bytes.Buffer{}
	if err := WritePkgCode(a, sel.AliveDecls(), linkname.GoLinknameSet{}, spec.Minify, &sourcemapx.Filter{Writer: pkgCode}); err != nil {
		t.Fatal(err)
	}
	js := &bytes.Buffer{}
	js.WriteString("\"use strict\";\n(function() {\nvar $goVersion = \"go1.20\";\n")
	for _, f := range prelude.PreludeFiles() {
		js.WriteString(f.Source)
		js.WriteString("\n")
	}
	js.WriteString("$throwRuntimeError = function(msg) { throw new Error(\"runtime error: \" + msg); };\n")
	js.Write(pkgCode.Bytes())
	js.WriteString("$callForAllPackages(\"$finishSetup\");\n$synthesizeMethods();\n")
	fmt.Fprintf(js, "var P = $packages[%q];\n", rootPkg.PkgPath)
	js.WriteString("var i64 = function(v) { return (BigInt(v.$high) * 4294967296n + BigInt(v.$low)).toString(); };\n")
	js.WriteString("var mk64 = function(T, s) { var b = BigInt.asUintN(64, BigInt(s)); return new T(Number(T === $Int64 ? BigInt.asIntN(32, b >> 32n) : (b >> 32n)), Number(b & 0xffffffffn)); };\n")
	js.WriteString("var tryc = function(f) { try { return f(); } catch (e) { return \"PANIC:\" + (e && e.message); } };\n")
	js.WriteString(spec.JSBody)
	js.WriteString("\n}).call(this);\n")
	file := filepath.Join(t.TempDir(), "gvc_e2e.js")
	if err := os.WriteFile(file, js.Bytes(), 0o644); err != nil {
		t.Fatal(err)
	}
	if os.Getenv("GVC_E2E_KEEP") != "" {
		os.WriteFile(os.Getenv("GVC_E2E_KEEP"), pkgCode.Bytes(), 0o644)
	}
	out, err := exec.Command("node", file).CombinedOutput()
	fmt.Printf("GVCE2E-BEGIN\n%s\nGVCE2E-END err=%v\n", out, err)
}
