#!/bin/bash
# tools/confirmseed.sh <seed dir with patch.diff and demo/> : independent confirmation of a seeded change in a scratch
# worktree (never /repo): clean build + demo passes; patched tree builds, the repository's tests give the same verdicts,
# the demo fails.  Prints a CONFIRM line.  The worktree and the binaries are removed at the end.
export GOFLAGS=-mod=mod GOPROXY=off GOSUMDB=off GOTOOLCHAIN=local GOPHERJS_SKIP_VERSION_CHECK=1
TP=${2:-build}   # package directory an in-package demo test is copied into
S=$(readlink -f "$1"); ID=$(basename "$(dirname "$S")")-$(basename "$S"); W=/tmp/confseed-$$; WT=$W/wt
mkdir -p $W; git -C /repo worktree add --detach $WT HEAD >/dev/null 2>&1 || exit 2
trap 'git -C /repo worktree remove --force $WT >/dev/null 2>&1; rm -rf $W' EXIT
rundemo() { # $1 = gopherjs binary, $2 = tag ; prints PASS/FAIL
  local out=$W/demo-$2.txt
  if ls $S/demo/*_test.go >/dev/null 2>&1; then
    cp $S/demo/*_test.go $WT/$TP/; n=$(grep -ho 'func Test[A-Za-z0-9_]*' $S/demo/*_test.go | head -1 | sed 's/func //')
    (cd $WT && go test -vet=off -count=1 -run "$n" ./$TP/ > $out 2>&1); rc=$?
    for f in $S/demo/*_test.go; do rm -f $WT/$TP/$(basename $f); done
    [ $rc = 0 ] && echo PASS || echo FAIL
  elif [ -f $S/demo/check.js ]; then
    rm -rf $W/d; cp -r $S/demo $W/d; (cd $W/d && $1 build $DEMOFLAGS -o out.js main.go > $out 2>&1 && node check.js out.js >> $out 2>&1); [ $? = 0 ] && echo PASS || echo FAIL
  elif [ -f $S/demo/run.sh ]; then
    rm -rf $W/d; cp -r $S/demo $W/d; (cd $W/d && bash run.sh $1 > $out 2>&1); [ $? = 0 ] && echo PASS || echo FAIL
  else
    rm -rf $W/d; cp -r $S/demo $W/d; (cd $W/d && $1 build -o out.js main.go > $out 2>&1 && node out.js >> $out 2>&1)
    exp=$S/demo/expected.txt; [ -f $exp ] || exp=$S/expected.txt
    if diff -q <(grep -v '^$' $out) <(grep -v '^$' $exp) >/dev/null; then echo PASS; else echo FAIL; fi
  fi
}
(cd $WT && go build -o $W/gjs-clean .) || { echo "CONFIRM $ID clean-build-failed"; exit 1; }
c=$(rundemo $W/gjs-clean clean)
git -C $WT apply $S/patch.diff || { echo "CONFIRM $ID patch-does-not-apply"; exit 1; }
(cd $WT && go build ./... && go build -o $W/gjs-patched .) || { echo "CONFIRM $ID patched-build-failed"; exit 1; }
t=$(cd $WT && go test -vet=off -count=1 ./build/... ./compiler/... ./internal/... ./nosync/... 2>&1 | grep -E '^(FAIL|---|ok|panic)' | grep -v '^ok' | grep -v 'TestNativesDontImportExtraPackages' | grep -v '^FAIL	github.com/gopherjs/gopherjs/build	' | grep -v '^FAIL$' | tr '\n' ';')
p=$(rundemo $W/gjs-patched patched)
echo "CONFIRM $ID demo-clean=$c demo-patched=$p tests-other-than-known=[${t}]"
echo "--- patched demo output (head)"; head -15 $W/demo-patched.txt
