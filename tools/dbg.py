import z3, sys, time, subprocess
from gvc.core import props
from gvc.core.goverify import GoVerifier
spec,_=props.load_specs()
keys=sorted({c.key.split('#lit')[0] for c in spec.contracts if c.kind=='func'})
dump=props.run_astdump(sorted({props.pkg_of_key(k) for k in keys}),keys)
v=GoVerifier(dump,spec); v.load_axioms()
fn=sys.argv[1]
if fn.startswith('lemma:'):
    if len(sys.argv)>4: v.verify_function(sys.argv[4]); v.obls=[]
    v.verify_lemma(fn[6:])
else: v.verify_function(fn)
for o in v.obls:
    if o.name.endswith(sys.argv[2]):
        txt=o.to_smt2(); open('/tmp/o.smt2','w').write(txt)
        print(o.name,len(txt))
        if len(sys.argv)>3:
            for h in o.hyps: print(' H',h)
            print(' G',o.goal)
        for s,extra in [('z3-new',[]),('z3-new',['smt.mbqi=false']),('z3',[]),('cvc5',[])]:
            t=time.time()
            try:
                p=subprocess.run([s]+extra+(['-T:20'] if s!='cvc5' else ['--tlimit=20000'])+['/tmp/o.smt2'],capture_output=True,text=True,timeout=30); out=p.stdout.split('\n')[0]
            except subprocess.TimeoutExpired: out='TIMEOUT'
            print('  ',s,extra,out,round(time.time()-t,2))
        break
