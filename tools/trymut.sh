#!/bin/sh
# tools/trymut.sh '<shell command mutating /repo>' <prop> [vcheck args]: like trypatch.sh for ad-hoc mutations.
if [ -n "$(git -C /repo status --porcelain)" ]; then echo "refusing: /repo has uncommitted changes" >&2; exit 2; fi
mut="$1"; prop="$2"; shift 2
sh -c "$mut" || { git -C /repo checkout -- .; exit 2; }
git -C /repo diff --stat | tail -1
cd /verif && VERIF_OUT=/tmp/gvc-try-out ./vcheck prop "$prop" "$@" 2>&1 | tail -4
git -C /repo checkout -- .
