import z3, sys
from gvc.core import props
from gvc.core.goverify import GoVerifier
spec,_=props.load_specs()
key=sys.argv[1]
c=[c for c in spec.contracts if c.key==key][0]
gl=set()
for cl in c.get('initval'): gl|=set(cl.text.split())
dump=props.run_astdump([], [k.key for k in spec.contracts if k.kind=='func' and k.key.startswith('natives:')], natives=[props.pkg_of_key(key)], globals_=sorted(gl))
v=GoVerifier(dump,spec,word=32); v.load_axioms(); v.verify_function(key)
for o in v.obls:
    if sys.argv[2] in o.name:
        open('/tmp/o.smt2','w').write(o.to_smt2())
        s=z3.Solver(); s.set('timeout',30000); s.add(o.hyps); s.add(z3.Not(o.goal)); r=s.check(); print(o.name, r)
        if r==z3.sat:
            m=s.model()
            for d in m.decls():
                if 'x' in d.name() or 'f2i' in d.name(): print(' ',d.name(), m[d])
        break

