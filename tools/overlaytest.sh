#!/bin/sh
# overlaytest.sh <test file> <pkg dir relative to /repo> <run regex>: run an in-package test without writing to /repo
T=$(mktemp -d); trap 'rm -rf $T' EXIT
printf '{"Replace": {"/repo/%s/%s": "%s"}}' "$2" "$(basename $1)" "$(realpath $1)" > $T/ov.json
cd /repo && GOFLAGS=-mod=mod GOPROXY=off GOSUMDB=off GOTOOLCHAIN=local go test -overlay $T/ov.json -vet=off -count=1 -timeout 300s -run "$3" -v ./$2 2>&1 | tail -15
