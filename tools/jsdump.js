// jsdump.js: dump the ESTree of prelude files (node's bundled acorn) as JSON: top-level function-valued variables
// (arrow functions, function expressions, `A || (arrow)` fallbacks) and the whole Program for region lookups.
//   node --expose-internals tools/jsdump.js file.js ... > out.json
const acorn = require('internal/deps/acorn/acorn/dist/acorn');
const fs = require('fs');
const out = {};
for (const f of process.argv.slice(2)) {
  const src = fs.readFileSync(f, 'utf8');
  const ast = acorn.parse(src, { ecmaVersion: 2022, locations: true });
  const funcs = {};
  for (const st of ast.body) {
    if (st.type === 'VariableDeclaration') for (const d of st.declarations) {
      if (!d.init) continue;
      if (d.init.type === 'ArrowFunctionExpression' || d.init.type === 'FunctionExpression') funcs[d.id.name] = d.init;
      if (d.init.type === 'LogicalExpression' && (d.init.right.type === 'ArrowFunctionExpression' || d.init.right.type === 'FunctionExpression')) {
        funcs[d.id.name] = d.init.right; funcs[d.id.name].fallbackOf = src.slice(d.init.left.start, d.init.left.end);
      }
    }
    if (st.type === 'FunctionDeclaration') funcs[st.id.name] = st;
  }
  out[f.split('/').pop()] = { funcs: funcs, program: ast };
}
process.stdout.write(JSON.stringify(out, (k, v) => ((k === 'start' || k === 'end') && typeof v === 'number') ? undefined : v));
