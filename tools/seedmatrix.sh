#!/bin/bash
# tools/seedmatrix.sh [seed ids...]: runs every filed seed (default: all of /verif/seeded) against the quick check of its
# property in a scratch worktree (not in /repo) and prints one line per seed; results in /tmp/seedrun/matrix.txt
export GOFLAGS=-mod=mod GOPROXY=off GOSUMDB=off GOTOOLCHAIN=local
WT=/tmp/seedrun/wt; OUT=/tmp/seedrun/out
mkdir -p /tmp/seedrun; rm -rf "$OUT"; mkdir -p "$OUT"
git -C /repo worktree remove --force "$WT" 2>/dev/null; rm -rf "$WT"
git -C /repo worktree add --detach "$WT" HEAD >/dev/null 2>&1 || exit 2
# the machinery itself runs from a snapshot, so that /verif can be edited while the matrix runs
SNAP=/tmp/seedrun/verif-snap; rm -rf "$SNAP"; mkdir -p "$SNAP"
rsync -a --exclude .git --exclude replays --exclude evidence --exclude seeded /verif/ "$SNAP"/
ids="$@"; [ -z "$ids" ] && ids=$(ls -d /verif/seeded/*/ | xargs -n1 basename | sort)
: > /tmp/seedrun/matrix.txt
for id in $ids; do
  P=${id%-*}
  if ! grep -q "\"property_id\": \"$P\"" /verif/MANIFEST.json; then echo "$id not-claimed" | tee -a /tmp/seedrun/matrix.txt; continue; fi
  if ! git -C "$WT" apply /verif/seeded/$id/patch.diff 2>/dev/null; then echo "$id patch-does-not-apply" | tee -a /tmp/seedrun/matrix.txt; continue; fi
  res=$(cd "$SNAP" && VERIF_REPO="$WT" VERIF_OUT="$OUT" ./vcheck prop $P 2>&1 | grep -v WARN)
  rc=$(echo "$res" | grep -c '^VIOLATION')
  und=$(echo "$res" | grep '^UNDECIDED' | head -2 | cut -c1-160 | tr '\n' ';')
  first=$(echo "$res" | grep 'failed obligation' | head -1 | sed 's/  failed obligation: //')
  if [ "$rc" -gt 0 ]; then echo "$id CAUGHT violations=$rc first=[$first] $und" | tee -a /tmp/seedrun/matrix.txt
  else echo "$id missed $(echo "$res" | tail -1 | cut -c1-120) $und" | tee -a /tmp/seedrun/matrix.txt; fi
  git -C "$WT" checkout -- . ; git -C "$WT" clean -fdq
done
git -C /repo worktree remove --force "$WT"; rm -rf "$OUT" "$SNAP"
