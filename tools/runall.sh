#!/bin/sh
# engine self-test, then every claimed check (quick tier); one line per property.
# On the unchanged tree nothing may be undecided and the self-test must say "0 wrong": a function that silently leaves
# the proof is an engine regression (it does not change the exit code of the check, so it is flagged here).
cd /verif
st=$(./vcheck selftest go 2>&1 | grep -v WARNING | tail -3)
echo "$st"
echo "$st" | grep -q ", 0 wrong" || echo "RUNALL-ATTENTION: engine self-test is not clean"
for p in $(python3 -c "import json; print(' '.join(c['property_id'] for c in json.load(open('MANIFEST.json'))['checks']))"); do
  l=$(./vcheck prop $p "$@" 2>&1 | grep -v WARNING | tail -1)
  echo "$l"
  echo "$l" | grep -q " 0 violations, .* 0 undecided" || echo "RUNALL-ATTENTION: $p has violations or undecided functions on this tree"
done
