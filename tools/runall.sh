#!/bin/sh
# run every claimed check (quick tier) and print one line per property
cd /verif
for p in $(python3 -c "import json; print(' '.join(c['property_id'] for c in json.load(open('MANIFEST.json'))['checks']))"); do ./vcheck prop $p "$@" 2>&1 | tail -1; done
