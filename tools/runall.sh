#!/bin/sh
# engine self-test, then every claimed check (quick tier); one line per property
cd /verif
./vcheck selftest go 2>&1 | grep -v WARNING | tail -3
for p in $(python3 -c "import json; print(' '.join(c['property_id'] for c in json.load(open('MANIFEST.json'))['checks']))"); do ./vcheck prop $p "$@" 2>&1 | grep -v WARNING | tail -1; done
