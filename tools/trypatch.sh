#!/bin/sh
# trypatch.sh <patch.diff> <prop> [extra vcheck args]: apply a seeded change to /repo, run the check, undo it.
P=$1; shift; ID=$1; shift
if [ -n "$(git -C /repo status --porcelain)" ]; then echo "refusing: /repo has uncommitted changes"; exit 3; fi
git -C /repo apply "$P" || { echo "patch does not apply"; exit 3; }
cd /verif && VERIF_OUT=/tmp/gvc-try-out ./vcheck prop $ID "$@" 2>&1 | grep -E "VIOLATION|UNDECIDED|KNOWN|obligations," ; 
git -C /repo checkout -- . 
