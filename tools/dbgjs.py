import z3, sys, time, subprocess
from gvc.core import props
from gvc.core.jsexec import JSExec, run_jsdump
import os
spec,_=props.load_specs()
files=[os.path.join('/repo/compiler/prelude',f) for f in props.PRELUDE_FILES]
dump=run_jsdump(files)
c=[c for c in spec.contracts if c.kind=='js' and c.key.endswith(sys.argv[1])][0]
v=JSExec(dump,spec); v.load_axioms(); v.verify_js(c)
for o in v.obls:
    if o.name.endswith(sys.argv[2]):
        txt=o.to_smt2(); open('/tmp/o.smt2','w').write(txt)
        print(o.name,len(txt))
        if len(sys.argv)>3:
            for h in o.hyps: print(' H',h)
            print(' G',o.goal)
        for s,extra in [('z3-new',[]),('z3',[]),('cvc5',[])]:
            t=time.time()
            try:
                p=subprocess.run([s]+extra+(['-T:60'] if s!='cvc5' else ['--tlimit=60000'])+['/tmp/o.smt2'],capture_output=True,text=True,timeout=70); out=p.stdout.split('\n')[0]
            except subprocess.TimeoutExpired: out='TIMEOUT'
            print('  ',s,extra,out,round(time.time()-t,2))
        break
