// astdump: mechanical extractor. Dumps the typed AST of selected functions of /repo (and of the
// natives overlays merged with the host GOROOT package) as JSON for the Python VC generator.
// Nothing is rewritten: every node of the go/ast tree is emitted with its go/types information.
package main

import (
	"encoding/json"
	"flag"
	"fmt"
	"go/ast"
	"go/build"
	"go/constant"
	"go/importer"
	"go/parser"
	"go/token"
	"go/types"
	"os"
	"path/filepath"
	"reflect"
	"sort"
	"strings"

	"golang.org/x/tools/go/packages"
)

const modPrefix = "github.com/gopherjs/gopherjs/"

type dumper struct {
	fset    *token.FileSet
	info    *types.Info
	objs    map[types.Object]int
	typeIDs map[string]int
	typeTab []map[string]any
}

func relPkg(p string) string {
	if p == "github.com/gopherjs/gopherjs" {
		return "."
	}
	return strings.TrimPrefix(p, modPrefix)
}

func qual(p *types.Package) string { return relPkg(p.Path()) }

func (d *dumper) objID(o types.Object) int {
	if id, ok := d.objs[o]; ok {
		return id
	}
	id := len(d.objs) + 1
	d.objs[o] = id
	return id
}

func singleTermCore(tp *types.TypeParam) types.Type {
	iface, ok := tp.Constraint().Underlying().(*types.Interface)
	if !ok || iface.NumMethods() != 0 || iface.NumEmbeddeds() != 1 {
		return nil
	}
	switch e := iface.EmbeddedType(0).(type) {
	case *types.Union:
		if e.Len() == 1 {
			return e.Term(0).Type().Underlying()
		}
	default:
		return e.Underlying()
	}
	return nil
}

func (d *dumper) typeID(t types.Type) int {
	if t == nil {
		return -1
	}
	key := types.TypeString(t, nil)
	if tp, ok := t.(*types.TypeParam); ok {
		key = fmt.Sprintf("typeparam:%s:%p", tp.Obj().Name(), tp)
	}
	if id, ok := d.typeIDs[key]; ok {
		return id
	}
	id := len(d.typeTab)
	d.typeIDs[key] = id
	m := map[string]any{"s": types.TypeString(t, qual)}
	d.typeTab = append(d.typeTab, m)
	if n, ok := t.(*types.Named); ok {
		if n.Obj().Pkg() != nil {
			m["named"] = qual(n.Obj().Pkg()) + "." + n.Obj().Name()
		} else {
			m["named"] = n.Obj().Name()
		}
	}
	var under types.Type = t.Underlying()
	if tp, ok := t.(*types.TypeParam); ok {
		// a type parameter whose constraint has a single-term core type that is a slice (`S ~[]E`) is handled as that
		// slice type; every other type parameter is an opaque interface-like value
		core := singleTermCore(tp)
		if sl, ok := core.(*types.Slice); ok {
			m["tp"] = true
			under = sl
		} else {
			m["k"] = "typeparam"
			return id
		}
	}
	switch u := under.(type) {
	case *types.Basic:
		m["k"] = "basic"
		m["b"] = u.Name()
	case *types.Slice:
		m["k"] = "slice"
		m["e"] = d.typeID(u.Elem())
	case *types.Array:
		m["k"] = "array"
		m["e"] = d.typeID(u.Elem())
		m["n"] = u.Len()
	case *types.Pointer:
		m["k"] = "ptr"
		m["e"] = d.typeID(u.Elem())
	case *types.Map:
		m["k"] = "map"
		m["key"] = d.typeID(u.Key())
		m["e"] = d.typeID(u.Elem())
	case *types.Struct:
		m["k"] = "struct"
		fs := []any{}
		for i := 0; i < u.NumFields(); i++ {
			fname := u.Field(i).Name()
			if fname == "_" {
				fname = fmt.Sprintf("_%d", i)
			}
			fs = append(fs, map[string]any{"n": fname, "t": d.typeID(u.Field(i).Type()), "emb": u.Field(i).Embedded()})
		}
		m["f"] = fs
	case *types.Interface:
		m["k"] = "iface"
	case *types.Signature:
		m["k"] = "func"
		ps, rs := []int{}, []int{}
		for i := 0; i < u.Params().Len(); i++ {
			ps = append(ps, d.typeID(u.Params().At(i).Type()))
		}
		for i := 0; i < u.Results().Len(); i++ {
			rs = append(rs, d.typeID(u.Results().At(i).Type()))
		}
		m["params"] = ps
		m["results"] = rs
		m["variadic"] = u.Variadic()
	case *types.Tuple:
		m["k"] = "tuple"
		es := []int{}
		for i := 0; i < u.Len(); i++ {
			es = append(es, d.typeID(u.At(i).Type()))
		}
		m["es"] = es
	case *types.Chan:
		m["k"] = "chan"
		m["e"] = d.typeID(u.Elem())
	default:
		m["k"] = fmt.Sprintf("%T", u)
	}
	return id
}

func (d *dumper) objJSON(o types.Object) map[string]any {
	om := map[string]any{"id": d.objID(o), "kind": strings.TrimPrefix(fmt.Sprintf("%T", o), "*types."), "name": o.Name()}
	if o.Pkg() != nil {
		om["pkg"] = qual(o.Pkg())
	}
	switch x := o.(type) {
	case *types.Var:
		om["field"] = x.IsField()
		om["global"] = o.Pkg() != nil && o.Parent() == o.Pkg().Scope()
		om["t"] = d.typeID(x.Type())
	case *types.Func:
		om["full"] = funcKey(x)
	case *types.Const:
		om["cv"] = x.Val().ExactString()
		om["t"] = d.typeID(x.Type())
		om["global"] = o.Pkg() != nil && o.Parent() == o.Pkg().Scope()
	case *types.PkgName:
		om["imported"] = x.Imported().Path()
	}
	return om
}

// funcKey: "<rel pkg>.<Recv>.<Name>" for methods, "<rel pkg>.<Name>" for functions.
func funcKey(fn *types.Func) string {
	pk := ""
	if fn.Pkg() != nil {
		pk = qual(fn.Pkg())
	}
	sig, _ := fn.Type().(*types.Signature)
	if sig != nil && sig.Recv() != nil {
		t := sig.Recv().Type()
		if p, ok := t.(*types.Pointer); ok {
			t = p.Elem()
		}
		switch n := t.(type) {
		case *types.Named:
			return pk + "." + n.Obj().Name() + "." + fn.Name()
		case *types.Interface:
			return pk + ".(interface)." + fn.Name()
		}
		return pk + ".(" + types.TypeString(t, qual) + ")." + fn.Name()
	}
	return pk + "." + fn.Name()
}

func (d *dumper) node(v reflect.Value) any {
	if !v.IsValid() {
		return nil
	}
	switch v.Kind() {
	case reflect.Interface, reflect.Ptr:
		if v.IsNil() {
			return nil
		}
		if v.Kind() == reflect.Interface {
			return d.node(v.Elem())
		}
		switch v.Interface().(type) {
		case *ast.Object, *ast.Scope, *ast.CommentGroup, *ast.Comment:
			return nil
		}
		el := v.Elem()
		if el.Kind() != reflect.Struct {
			return nil
		}
		m := map[string]any{"_": el.Type().Name()}
		if n, ok := v.Interface().(ast.Node); ok {
			p := d.fset.Position(n.Pos())
			m["line"] = p.Line
			m["col"] = p.Column
		}
		for i := 0; i < el.NumField(); i++ {
			f := el.Type().Field(i)
			if !f.IsExported() {
				continue
			}
			fv := el.Field(i)
			switch x := fv.Interface().(type) {
			case token.Pos:
				if f.Name == "Ellipsis" && x.IsValid() {
					m["Ellipsis"] = true
				}
				continue
			case token.Token:
				m[f.Name] = x.String()
				continue
			}
			if x := d.node(fv); x != nil {
				m[f.Name] = x
			}
		}
		if e, ok := v.Interface().(ast.Expr); ok {
			if tv, ok := d.info.Types[e]; ok {
				m["t"] = d.typeID(tv.Type)
				if tv.Value != nil {
					m["cv"] = tv.Value.ExactString()
					m["ck"] = tv.Value.Kind().String()
					if tv.Value.Kind() == constant.String {
						m["cs"] = []byte(constant.StringVal(tv.Value))
					}
				}
				if tv.IsType() {
					m["isType"] = true
				}
				if tv.IsNil() {
					m["isNil"] = true
				}
				if tv.IsBuiltin() {
					m["isBuiltin"] = true
				}
			}
		}
		if id, ok := v.Interface().(*ast.Ident); ok {
			if o := d.info.ObjectOf(id); o != nil {
				m["obj"] = d.objJSON(o)
			}
		}
		if se, ok := v.Interface().(*ast.SelectorExpr); ok {
			if sel, ok := d.info.Selections[se]; ok {
				sm := map[string]any{"kind": []string{"field", "method", "methodexpr"}[sel.Kind()], "recv": d.typeID(sel.Recv()), "indirect": sel.Indirect(), "index": sel.Index()}
				if fn, ok := sel.Obj().(*types.Func); ok {
					sm["full"] = funcKey(fn)
				}
				m["sel"] = sm
			}
		}
		if ts, ok := v.Interface().(*ast.TypeSwitchStmt); ok {
			_ = ts
		}
		if cc, ok := v.Interface().(*ast.CaseClause); ok {
			if o := d.info.Implicits[cc]; o != nil {
				m["implicit"] = d.objJSON(o)
			}
		}
		return m
	case reflect.Slice:
		if v.Len() == 0 {
			return nil
		}
		if v.Type().Elem().Kind() == reflect.Uint8 {
			return nil
		}
		out := []any{}
		for i := 0; i < v.Len(); i++ {
			out = append(out, d.node(v.Index(i)))
		}
		return out
	case reflect.String:
		return v.String()
	case reflect.Bool:
		return v.Bool()
	case reflect.Int, reflect.Int64:
		return v.Int()
	}
	return nil
}

func declKey(pkgRel string, fd *ast.FuncDecl) string {
	name := fd.Name.Name
	if fd.Recv != nil && len(fd.Recv.List) > 0 {
		t := fd.Recv.List[0].Type
		for {
			switch x := t.(type) {
			case *ast.StarExpr:
				t = x.X
				continue
			case *ast.IndexExpr:
				t = x.X
				continue
			case *ast.IndexListExpr:
				t = x.X
				continue
			case *ast.ParenExpr:
				t = x.X
				continue
			}
			break
		}
		if id, ok := t.(*ast.Ident); ok {
			name = id.Name + "." + name
		}
	}
	return pkgRel + "." + name
}

type output struct {
	Types    []map[string]any          `json:"types"`
	Funcs    map[string]map[string]any `json:"funcs"`
	Globals  map[string]map[string]any `json:"globals"`
	Missing  []string                  `json:"missing"`
	Sites    []map[string]any          `json:"sites,omitempty"`
	Embeds   []map[string]any          `json:"embeds,omitempty"`
	Errors   []string                  `json:"errors,omitempty"`
	AllFuncs []string                  `json:"allfuncs,omitempty"`
}

func (d *dumper) dumpPackage(pkgRel string, files []*ast.File, want map[string]bool, wantGlobals map[string]bool, out *output, sites bool) {
	for _, f := range files {
		fname := d.fset.Position(f.Pos()).Filename
		for _, decl := range f.Decls {
			switch fd := decl.(type) {
			case *ast.FuncDecl:
				key := declKey(pkgRel, fd)
				out.AllFuncs = append(out.AllFuncs, key)
				if sites && !strings.HasSuffix(fname, "_test.go") {
					d.collectSites(key, fname, fd, out)
				}
				if !want[key] {
					continue
				}
				m := d.node(reflect.ValueOf(fd)).(map[string]any)
				m["file"] = fname
				m["pkg"] = pkgRel
				m["endline"] = d.fset.Position(fd.End()).Line
				out.Funcs[key] = m
			case *ast.GenDecl:
				// //go:embed directives: var v string with comment
				for _, s := range fd.Specs {
					vs, ok := s.(*ast.ValueSpec)
					if !ok {
						continue
					}
					doc := vs.Doc
					if doc == nil {
						doc = fd.Doc
					}
					if doc != nil {
						for _, c := range doc.List {
							if strings.HasPrefix(c.Text, "//go:embed ") {
								for _, n := range vs.Names {
									out.Embeds = append(out.Embeds, map[string]any{"var": pkgRel + "." + n.Name, "pattern": strings.TrimSpace(strings.TrimPrefix(c.Text, "//go:embed ")), "file": fname, "line": d.fset.Position(n.Pos()).Line})
								}
							}
						}
					}
					for i, n := range vs.Names {
						key := pkgRel + "." + n.Name
						if !wantGlobals[key] {
							continue
						}
						g := map[string]any{"tok": fd.Tok.String(), "file": fname, "line": d.fset.Position(n.Pos()).Line}
						if o := d.info.Defs[n]; o != nil {
							g["obj"] = d.objJSON(o)
						}
						if i < len(vs.Values) {
							g["init"] = d.node(reflect.ValueOf(vs.Values[i]))
						}
						out.Globals[key] = g
					}
				}
			}
		}
	}
}

// collectSites records every source of nondeterminism that a deterministic sequential program can
// have: range over a map, go statements, select statements, and calls of listed functions.
func (d *dumper) collectSites(fkey, fname string, fd *ast.FuncDecl, out *output) {
	if fd.Body == nil {
		return
	}
	ast.Inspect(fd.Body, func(n ast.Node) bool {
		switch x := n.(type) {
		case *ast.RangeStmt:
			if tv, ok := d.info.Types[x.X]; ok {
				if _, isMap := tv.Type.Underlying().(*types.Map); isMap {
					p := d.fset.Position(x.Pos())
					out.Sites = append(out.Sites, map[string]any{"kind": "maprange", "func": fkey, "file": fname, "line": p.Line, "endline": d.fset.Position(x.End()).Line,
						"node": d.node(reflect.ValueOf(x))})
				}
			}
		case *ast.GoStmt:
			out.Sites = append(out.Sites, map[string]any{"kind": "go", "func": fkey, "file": fname, "line": d.fset.Position(x.Pos()).Line})
		case *ast.SelectStmt:
			out.Sites = append(out.Sites, map[string]any{"kind": "select", "func": fkey, "file": fname, "line": d.fset.Position(x.Pos()).Line})
		case *ast.CallExpr:
			var fn *types.Func
			switch f := x.Fun.(type) {
			case *ast.SelectorExpr:
				if o, ok := d.info.Uses[f.Sel].(*types.Func); ok {
					fn = o
				}
			case *ast.Ident:
				if o, ok := d.info.Uses[f].(*types.Func); ok {
					fn = o
				}
			}
			if fn != nil {
				k := funcKey(fn)
				out.Sites = append(out.Sites, map[string]any{"kind": "call", "func": fkey, "callee": k, "file": fname, "line": d.fset.Position(x.Pos()).Line})
			}
		}
		return true
	})
}

func splitList(s string) []string {
	var r []string
	for _, x := range strings.Split(s, ",") {
		x = strings.TrimSpace(x)
		if x != "" {
			r = append(r, x)
		}
	}
	return r
}

func main() {
	dir := flag.String("dir", "/repo", "repository root")
	pkgsF := flag.String("pkgs", "", "comma separated package patterns (relative to dir)")
	funcsF := flag.String("funcs", "", "comma separated function keys (or @file with one per line)")
	globalsF := flag.String("globals", "", "comma separated package-level var/const keys")
	nativesF := flag.String("natives", "", "comma separated std packages whose natives overlay is merged with GOROOT (32-bit sizes)")
	sites := flag.Bool("sites", false, "collect nondeterminism sites")
	outF := flag.String("out", "", "output file (default stdout)")
	flag.Parse()

	want := map[string]bool{}
	fl := *funcsF
	if strings.HasPrefix(fl, "@") {
		b, err := os.ReadFile(fl[1:])
		if err != nil {
			fmt.Fprintln(os.Stderr, err)
			os.Exit(2)
		}
		fl = strings.ReplaceAll(string(b), "\n", ",")
	}
	for _, f := range splitList(fl) {
		want[f] = true
	}
	wantG := map[string]bool{}
	for _, g := range splitList(*globalsF) {
		wantG[g] = true
	}
	out := &output{Funcs: map[string]map[string]any{}, Globals: map[string]map[string]any{}}
	d := &dumper{objs: map[types.Object]int{}, typeIDs: map[string]int{}}

	if *pkgsF != "" {
		cfg := &packages.Config{Mode: packages.NeedSyntax | packages.NeedTypes | packages.NeedTypesInfo | packages.NeedName | packages.NeedFiles, Dir: *dir}
		pkgs, err := packages.Load(cfg, splitList(*pkgsF)...)
		if err != nil {
			fmt.Fprintln(os.Stderr, "load:", err)
			os.Exit(2)
		}
		sort.Slice(pkgs, func(i, j int) bool { return pkgs[i].PkgPath < pkgs[j].PkgPath })
		for _, p := range pkgs {
			for _, e := range p.Errors {
				out.Errors = append(out.Errors, p.PkgPath+": "+e.Error())
			}
			if p.TypesInfo == nil {
				continue
			}
			d.fset = p.Fset
			d.info = p.TypesInfo
			d.dumpPackage(relPkg(p.PkgPath), p.Syntax, want, wantG, out, *sites)
		}
	}
	for _, np := range splitList(*nativesF) {
		if err := loadNatives(d, *dir, np, want, wantG, out); err != nil {
			out.Errors = append(out.Errors, "natives "+np+": "+err.Error())
		}
	}
	for k := range want {
		if _, ok := out.Funcs[k]; !ok {
			out.Missing = append(out.Missing, k)
		}
	}
	sort.Strings(out.Missing)
	sort.Strings(out.AllFuncs)
	out.Types = d.typeTab
	w := os.Stdout
	if *outF != "" {
		f, err := os.Create(*outF)
		if err != nil {
			fmt.Fprintln(os.Stderr, err)
			os.Exit(2)
		}
		defer f.Close()
		w = f
	}
	enc := json.NewEncoder(w)
	if err := enc.Encode(out); err != nil {
		fmt.Fprintln(os.Stderr, err)
		os.Exit(2)
	}
}

// ---------------------------------------------------------------------------------------------
// natives: emulate the overlay rule independently of /repo/build: parse the overlay files of
// compiler/natives/src/<pkg>, parse the host GOROOT package selected as js/wasm, drop from the
// original every declaration whose name the overlay declares, type-check the union with 32-bit
// int/uint/uintptr (compiler.sizes32). Keys are "natives:<pkg>.<Recv.>Name" for overlay functions
// and "goroot:<pkg>.<Recv.>Name" for retained upstream ones.

func declNames(decl ast.Decl) []string {
	var r []string
	switch d := decl.(type) {
	case *ast.FuncDecl:
		r = append(r, strings.TrimPrefix(declKey("", d), "."))
	case *ast.GenDecl:
		for _, s := range d.Specs {
			switch s := s.(type) {
			case *ast.TypeSpec:
				r = append(r, s.Name.Name)
			case *ast.ValueSpec:
				for _, n := range s.Names {
					r = append(r, n.Name)
				}
			}
		}
	}
	return r
}

type jsImporter struct {
	base types.Importer
	dir  string
	fset *token.FileSet
	js   *types.Package
}

func (j *jsImporter) Import(path string) (*types.Package, error) { return j.ImportFrom(path, "", 0) }
func (j *jsImporter) ImportFrom(path, dir string, mode types.ImportMode) (*types.Package, error) {
	if path == "github.com/gopherjs/gopherjs/js" {
		if j.js != nil {
			return j.js, nil
		}
		f, err := parser.ParseFile(j.fset, filepath.Join(j.dir, "js", "js.go"), nil, 0)
		if err != nil {
			return nil, err
		}
		conf := types.Config{Importer: j.base, Sizes: &types.StdSizes{WordSize: 4, MaxAlign: 8}, Error: func(error) {}}
		p, _ := conf.Check(path, j.fset, []*ast.File{f}, nil)
		j.js = p
		return p, nil
	}
	if from, ok := j.base.(types.ImporterFrom); ok {
		return from.ImportFrom(path, dir, mode)
	}
	return j.base.Import(path)
}

func loadNatives(d *dumper, dir, pkgPath string, want, wantG map[string]bool, out *output) error {
	nat := filepath.Join(dir, "compiler/natives/src", pkgPath)
	fset := token.NewFileSet()
	ctx := build.Default
	ctx.GOOS, ctx.GOARCH = "js", "wasm"
	ctx.CgoEnabled = false
	bp, err := ctx.Import(pkgPath, "", 0)
	if err != nil {
		return err
	}
	var natFilesAST, origFiles []*ast.File
	over := map[string]bool{}
	natFiles, _ := filepath.Glob(filepath.Join(nat, "*.go"))
	sort.Strings(natFiles)
	for _, nf := range natFiles {
		if strings.HasSuffix(nf, "_test.go") {
			continue
		}
		f, err := parser.ParseFile(fset, nf, nil, parser.ParseComments)
		if err != nil {
			return err
		}
		for _, dcl := range f.Decls {
			for _, n := range declNames(dcl) {
				over[n] = true
			}
		}
		natFilesAST = append(natFilesAST, f)
	}
	for _, gf := range bp.GoFiles {
		f, err := parser.ParseFile(fset, filepath.Join(bp.Dir, gf), nil, parser.ParseComments)
		if err != nil {
			return err
		}
		var keep []ast.Decl
		for _, dcl := range f.Decls {
			if gd, ok := dcl.(*ast.GenDecl); ok && gd.Tok != token.IMPORT {
				var specs []ast.Spec
				for _, s := range gd.Specs {
					drop := false
					for _, n := range declNames(&ast.GenDecl{Tok: gd.Tok, Specs: []ast.Spec{s}}) {
						if over[n] {
							drop = true
						}
					}
					if !drop {
						specs = append(specs, s)
					}
				}
				if len(specs) == 0 {
					continue
				}
				gd.Specs = specs
				keep = append(keep, gd)
				continue
			}
			if fdl, ok := dcl.(*ast.FuncDecl); ok {
				drop := false
				for _, n := range declNames(fdl) {
					if over[n] {
						drop = true
					}
				}
				if drop {
					continue
				}
			}
			keep = append(keep, dcl)
		}
		f.Decls = keep
		origFiles = append(origFiles, f)
	}
	nerr := 0
	conf := types.Config{Sizes: &types.StdSizes{WordSize: 4, MaxAlign: 8},
		Importer: &jsImporter{base: importer.ForCompiler(fset, "source", nil), dir: dir, fset: fset},
		Error: func(err error) {
			nerr++
			s := err.Error()
			if strings.Contains(s, "imported and not used") || strings.Contains(s, "declared and not used") {
				return
			}
			out.Errors = append(out.Errors, "natives "+pkgPath+": "+s)
		}}
	info := &types.Info{Types: map[ast.Expr]types.TypeAndValue{}, Defs: map[*ast.Ident]types.Object{}, Uses: map[*ast.Ident]types.Object{},
		Selections: map[*ast.SelectorExpr]*types.Selection{}, Implicits: map[ast.Node]types.Object{}}
	all := append(append([]*ast.File{}, natFilesAST...), origFiles...)
	conf.Check(pkgPath, fset, all, info)
	d.fset, d.info = fset, info
	d.dumpPackage("natives:"+pkgPath, natFilesAST, want, wantG, out, false)
	d.dumpPackage("goroot:"+pkgPath, origFiles, want, wantG, out, false)
	return nil
}
