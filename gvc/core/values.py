# Value domain shared by the Go and JavaScript symbolic executors.
import z3

I = z3.IntSort()
B = z3.BoolSort()
ArrII = z3.ArraySort(I, I)
ByteSeq = z3.DeclareSort('ByteSeq')        # abstract byte sequences for specifications (never SMT Seq)
F64 = z3.Float64()
F32 = z3.Float32()

_fresh = [0]
def reset_fresh():
    _fresh[0] = 0

def fresh(name, sort=I):
    _fresh[0] += 1
    return z3.Const('%s!%d' % (name, _fresh[0]), sort)

INT_KINDS = {
    'int': (64, True), 'int8': (8, True), 'int16': (16, True), 'int32': (32, True), 'int64': (64, True),
    'uint': (64, False), 'uint8': (8, False), 'uint16': (16, False), 'uint32': (32, False), 'uint64': (64, False),
    'uintptr': (64, False), 'byte': (8, False), 'rune': (32, True),
    'untyped int': (0, True), 'untyped rune': (0, True),
}

class SliceV:
    """A Go slice: per-component backing arrays (one z3 array per flattened component of the element
    type), offset, length, capacity; isnil is a z3 Bool."""
    def __init__(self, arrs, off, ln, cap, etid, isnil=None):
        self.arrs, self.off, self.len, self.cap, self.etid = list(arrs), off, ln, cap, etid
        self.isnil = isnil if isnil is not None else z3.BoolVal(False)
    @property
    def arr(self):
        return self.arrs[0]

class StrV:
    """A Go string: immutable bytes arr[off .. off+len)."""
    def __init__(self, arr, off, ln, sym=None, lit=None):
        self.arr, self.off, self.len, self.sym, self.lit = arr, off, ln, sym, lit

class StructV:
    def __init__(self, tid, fields):
        self.tid, self.fields = tid, dict(fields)
    def copy(self):
        return StructV(self.tid, {k: copyval(v) for k, v in self.fields.items()})

class PtrV:
    def __init__(self, ref, etid):
        self.ref, self.etid = ref, etid

class MapV:
    def __init__(self, dom, vals, ktid, vtid, isnil=None, size=None):
        self.dom, self.vals, self.ktid, self.vtid = dom, list(vals), ktid, vtid
        self.isnil = isnil if isnil is not None else z3.BoolVal(False)
        self.size = size

class IfaceV:
    """Opaque interface value: ref identifies the value (0 = nil interface), tag the dynamic type."""
    def __init__(self, ref, tag=None, tid=None, concrete=None):
        self.ref, self.tag, self.tid, self.concrete = ref, tag, tid, concrete

class FuncV:
    def __init__(self, ref=None, lit=None, env=None, key=None, recv=None):
        self.ref, self.lit, self.env, self.key, self.recv = ref, lit, env, key, recv

class TupleV:
    def __init__(self, vals):
        self.vals = list(vals)

class SeqV:
    """Specification-level abstract byte sequence."""
    def __init__(self, term):
        self.term = term

class ArrayV:
    """Go array value (value semantics): component arrays + static length."""
    def __init__(self, arrs, n, etid):
        self.arrs, self.n, self.etid = list(arrs), n, etid
    @property
    def arr(self):
        return self.arrs[0]
    def copy(self):
        return ArrayV(list(self.arrs), self.n, self.etid)

def copyval(v, memo=None):
    if isinstance(v, StructV):
        return v.copy()
    if isinstance(v, ArrayV):
        return v.copy()
    if type(v).__name__ == 'JSObj':
        # JavaScript objects are mutable records with identity: a state copy gets its own record, and two variables naming
        # one object keep naming one object (memo)
        if memo is None: return v.copy()
        if id(v) not in memo: memo[id(v)] = v.copy()
        return memo[id(v)]
    return v

# string literals: one array constant per distinct literal, with ground facts
_strlits = {}
STRLIT_BY_NAME = {}
STRLIT_FACTS = []
def strlit(b):
    b = bytes(b)
    if b in _strlits:
        return _strlits[b]
    arr = z3.Const('strlit!%d' % len(_strlits), ArrII)
    v = StrV(arr, z3.IntVal(0), z3.IntVal(len(b)), lit=b)
    STRLIT_BY_NAME['strlit!%d' % len(_strlits)] = v
    _strlits[b] = v
    return v

def lit_facts(v):
    """ground facts giving the bytes of a string literal; added to a path only when its bytes are read"""
    return [z3.Select(v.arr, i) == c for i, c in enumerate(v.lit)]

# abstract sequence vocabulary
cat = z3.Function('cat', ByteSeq, ByteSeq, ByteSeq)
slen = z3.Function('slen', ByteSeq, I)
sl = z3.Function('sl', ArrII, I, I, ByteSeq)
sempty = z3.Const('sempty', ByteSeq)
sbyte = z3.Function('sbyte', I, ByteSeq)       # one-byte sequence

def seq_axioms():
    x, y, zz = z3.Consts('x!s y!s z!s', ByteSeq)
    a = z3.Const('a!s', ArrII); lo, hi, k = z3.Ints('lo!s hi!s k!s')
    return [
        # explicit triggers: associativity is used as a rewrite rule from left-nested to right-nested only (without a
        # trigger z3 instantiates it in both directions and builds ever larger concatenations)
        z3.ForAll([x, y, zz], cat(cat(x, y), zz) == cat(x, cat(y, zz)), patterns=[cat(cat(x, y), zz)]),
        z3.ForAll([x], cat(x, sempty) == x, patterns=[cat(x, sempty)]), z3.ForAll([x], cat(sempty, x) == x, patterns=[cat(sempty, x)]),
        z3.ForAll([x, y], slen(cat(x, y)) == slen(x) + slen(y), patterns=[cat(x, y)]), slen(sempty) == 0,
        z3.ForAll([x], slen(x) >= 0, patterns=[slen(x)]),
        z3.ForAll([k], slen(sbyte(k)) == 1, patterns=[sbyte(k)]),
    ]

def split_fact(a, l, k, h):
    return z3.Implies(z3.And(l <= k, k <= h), sl(a, l, h) == cat(sl(a, l, k), sl(a, k, h)))

def sl_facts(a, lo, hi):
    """ground instances of the array-indexed axioms of sl (quantifying over arrays makes every solver give up)"""
    t = sl(a, lo, hi)
    return [z3.Implies(lo <= hi, slen(t) == hi - lo), z3.Implies(lo == hi, t == sempty), z3.Implies(hi == lo + 1, t == sbyte(z3.Select(a, lo)))]

PROD = z3.Function('prod', I, I, I)     # abstracted product of two non-constant integers (nonlinear abstraction)
