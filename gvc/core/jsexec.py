# Symbolic executor / VC generator for the JavaScript subset J0 over the ESTree of the prelude files.
#
# Number semantics.  mode jn: a JS number that is an integer is an SMT Int; every + - * result carries the obligation
# |v| <= 2^53 (then the double operation is exact).  Bitwise operators follow ECMA-262: ToInt32 / ToUint32 of the operands,
# shift counts masked with & 31.  mode bv: numbers are signed 64-bit bit-vectors holding the integer (same exactness
# obligations), so variable shift counts and `|` of arbitrary operands are available.
import z3, re, json, os, subprocess
from .values import *
from .gostate import *
TDIV = z3.Function('tdiv', I, I, I)
TMOD = z3.Function('tmod', I, I, I)
from .goexec import GoExec, Frame, PathEnd, ReturnEx, PanicEx, BreakEx, ContinueEx, simp_bool, ite
from .gospec import SpecMixin, SpecEnv
from . import speclang

TWO32, TWO31, TWO53 = 1 << 32, 1 << 31, 1 << 53

class MaybeNaN:
    """a number that may be NaN (only String.prototype.charCodeAt produces these in J0)"""
    def __init__(self, val, nan):
        self.val, self.nan = val, nan

class JSObj:
    def __init__(self, fields, ctor=None, ref=None):
        self.fields, self.ctor, self.ref = dict(fields), ctor, ref
    def copy(self):
        return JSObj(dict(self.fields), self.ctor, self.ref)

class JSArr:
    """array / typed array with identity: contents live in the state's array heap st.ghost[('jsheap',)] : id -> (index -> value)"""
    def __init__(self, ident, length, kind='num', off=None, plain=None):
        self.ident, self.length, self.kind = ident, length, kind
        self.off = off          # typed-array views (subarray) start at an offset into the shared buffer
        self.plain = plain      # z3 Bool: `array.constructor === Array` (a plain JS array rather than a typed array)

class JSTuple:
    def __init__(self, items):
        self.items = list(items)

class JSQuot:
    """x / y of two integers, kept symbolic: NaN iff x == 0 == y, +-Infinity iff y == 0 != x, else the (rounded) quotient"""
    def __init__(self, x, y):
        self.x, self.y = x, y

class JSInf:
    def __init__(self, sign):
        self.sign = sign

class OptNum:
    """an optional numeric parameter: undefined or a number"""
    def __init__(self, val, undef):
        self.val, self.undef = val, undef

class JSUndef:
    pass
UNDEF = JSUndef()

class JSFunc:
    def __init__(self, name):
        self.name = name

# Objects by reference (types.js closures: struct copy, comparability).
#   JSRec   a value object (a struct value): identity `ref`, properties addressed by computed keys; contents live in the
#           record heap st.ghost[('rech',)] : ref -> (key -> value).
#   JSDesc  an immutable descriptor (a type, a field descriptor): every field is a function of the identity.
#   JSDescFn a function-valued field of a descriptor (`f.typ.copy`): calling it is an abstract call, recorded in ghost state.
#   JSStrId a string-valued descriptor field (`f.prop`, `f.name`): only its identity is used (as a property key, in ===).
class RecV:
    """a value object in a specification: identity and the row of the record heap in the state the expression is read in"""
    def __init__(self, ref, row): self.ref, self.row = ref, row
class JSQueue:
    """a wait queue of a channel ($sendQueue / $recvQueue): only shift() is modelled, it yields a continuation or undefined"""
    def __init__(self, name): self.name = name
class JSOptFn:
    """a continuation taken from a wait queue, or undefined"""
    def __init__(self, undef): self.undef = undef
class JSRec:
    def __init__(self, ref): self.ref = ref
class JSDesc:
    def __init__(self, ref): self.ref = ref
class JSDescFn:
    def __init__(self, owner, name): self.owner, self.name = owner, name
class JSStrId:
    def __init__(self, id): self.id = id
DESC_REF_FIELDS = {'typ', 'elem'}
DESC_STR_FIELDS = {'prop', 'name', 'pkg', 'tag', 'string'}
DESC_BOOL_FIELDS = {'comparable', 'embedded', 'exported', 'named', 'wrapped'}
DESC_INT_FIELDS = {'kind', 'size', 'len'}
DESC_FN_FIELDS = {'copy', 'zero', 'keyFor'}
def desc_field(ref, name):
    if name in DESC_BOOL_FIELDS: return z3.Function('fld_' + name, I, B)(ref)
    return z3.Function('fld_' + name, I, I)(ref)

HEAP = z3.ArraySort(I, ArrII)

from .gocalls import CallsMixin
from .goverify import GoVerifier

class JSExec(GoExec, SpecMixin, CallsMixin):
    load_axioms = GoVerifier.load_axioms
    verify_lemma = GoVerifier.verify_lemma
    spec_fresh = GoVerifier.spec_fresh

    def __init__(self, jsdump, spec, mode='jn'):
        GoExec.__init__(self, {'types': [], 'funcs': {}}, spec, mode=mode)
        self.js = jsdump
        self.jscontracts = {}
        self.jsvariants = {}
        for c in spec.contracts:
            if c.kind == 'js':
                ps = c.key.split()
                self.jscontracts.setdefault(ps[1] if len(ps) >= 2 else ps[0], c)
                self.jsvariants.setdefault(ps[1] if len(ps) >= 2 else ps[0], []).append(c)
        self.throws = []
        self.js_consts = {}
        for f, d in (jsdump or {}).items():
            for stt in d.get('program', {}).get('body', []):
                if stt.get('type') == 'VariableDeclaration':
                    for dd in stt['declarations']:
                        if dd.get('init') and dd['init'].get('type') == 'Literal' and isinstance(dd['init'].get('value'), int) and not isinstance(dd['init'].get('value'), bool):
                            self.js_consts[dd['id']['name']] = dd['init']['value']
        self.u32view = {}
        self.dmcache = {}
        self.tzinfo = {}
        self._keep = []

    # ------------------------------------------------------------------ number algebra
    def num(self, n):
        if self.mode == 'bv':
            return z3.BitVecVal(n, 64)
        if self.mode == 'fp':
            return z3.FPVal(float(n), F64)
        return z3.IntVal(n)

    def exact(self, st, v, line):
        if self.mode == 'fp':
            return v            # IEEE arithmetic is modelled exactly in the floating-point theory
        if self.mode == 'bv':
            self.oblige(st, 'exact@%s' % line, z3.And(v >= z3.BitVecVal(-TWO53, 64), v <= z3.BitVecVal(TWO53, 64)), src=line)
        else:
            self.oblige(st, 'exact@%s' % line, z3.And(v >= -TWO53, v <= TWO53), src=line)
        return v

    def trunc_real(self, v):
        return z3.If(v >= 0, z3.ToInt(v), -z3.ToInt(-v))

    def fp_toint(self, v, signed):
        """ToInt32 / ToUint32 of a double (mode fp): truncation modulo 2^32 for |v| < 2^63, 0 for NaN and infinities"""
        big = z3.fpToSBV(z3.RTZ(), v, z3.BitVecSort(64))
        low = z3.Extract(31, 0, big)
        fin = z3.And(z3.Not(z3.fpIsNaN(v)), z3.Not(z3.fpIsInf(v)))
        r = z3.fpSignedToFP(z3.RNE(), low, F64) if signed else z3.fpUnsignedToFP(z3.RNE(), low, F64)
        self.fp_range_needed = True
        return z3.If(fin, r, z3.FPVal(0.0, F64))

    def toint32(self, v):
        if isinstance(v, z3.ExprRef) and z3.is_fp(v):
            return self.fp_toint(v, True)
        if isinstance(v, z3.ExprRef) and z3.is_real(v):
            v = self.trunc_real(v)
        if isinstance(v, MaybeNaN):
            return self.toint32(z3.If(v.nan, self.num(0), v.val))
        if self.mode == 'bv':
            return z3.SignExt(32, z3.Extract(31, 0, v))
        r = self.range_of(v)
        if r and -TWO31 <= r[0] and r[1] < TWO31:
            return v
        return self.dm(v + TWO31, TWO32)[1] - TWO31

    def touint32(self, v):
        if isinstance(v, z3.ExprRef) and z3.is_fp(v):
            return self.fp_toint(v, False)
        if isinstance(v, z3.ExprRef) and z3.is_real(v):
            v = self.trunc_real(v)
        if isinstance(v, MaybeNaN):
            return self.touint32(z3.If(v.nan, self.num(0), v.val))
        if self.mode == 'bv':
            return z3.ZeroExt(32, z3.Extract(31, 0, v))
        r = self.range_of(v)
        if r and 0 <= r[0] and r[1] < TWO32:
            return v
        return self.dm(v, TWO32)[1]

    def dm(self, x, c):
        """floor division and modulus by a positive constant, purified: fresh q, r with x == c*q + r, 0 <= r < c (keeps the
        verification conditions in linear arithmetic without nested div/mod terms)"""
        xs = z3.simplify(x)
        if z3.is_int_value(xs):
            return z3.IntVal(xs.as_long() // c), z3.IntVal(xs.as_long() % c)
        key = (xs.get_id(), c)
        st = self._st
        cache = st.meta.get('dm', {})
        if key in cache:
            return cache[key][0], cache[key][1]
        q, r = fresh('q'), fresh('r')
        st.pc.append(z3.And(xs == c * q + r, r >= 0, r < c))
        self.know(r, 0, c - 1)
        rg = self.range_of(xs)
        if rg:
            self.know(q, rg[0] // c, rg[1] // c)
            st.pc.append(z3.And(q >= rg[0] // c, q <= rg[1] // c))
        nc = dict(cache); nc[key] = (q, r, xs)      # xs kept alive so that its id is not reused
        st.meta['dm'] = nc
        return q, r

    def u32(self, v):
        if isinstance(v, z3.ExprRef) and z3.is_real(v):
            return self.touint32(v)
        """ToUint32 of an Int term; int32 results of << and | remember the unsigned value they were wrapped from"""
        if isinstance(v, z3.ExprRef) and v.get_id() in self.u32view:
            return self.u32view[v.get_id()]
        return self.touint32(v)

    def tz(self, v):
        """guaranteed number of trailing zero bits of a non-negative Int term (syntactic)"""
        if v.get_id() in self.tzinfo:
            return self.tzinfo[v.get_id()]
        v = z3.simplify(v)
        if v.get_id() in self.tzinfo:
            return self.tzinfo[v.get_id()]
        if z3.is_int_value(v):
            n = v.as_long()
            if n == 0: return 64
            k = 0
            while n % 2 == 0: n //= 2; k += 1
            return k
        if z3.is_mul(v):
            return sum(self.tz(c) for c in v.children() if z3.is_int_value(z3.simplify(c)))
        if z3.is_add(v):
            return min(self.tz(c) for c in v.children())
        if z3.is_app(v) and v.decl().kind() == z3.Z3_OP_MOD:
            m = z3.simplify(v.arg(1))
            if z3.is_int_value(m) and m.as_long() > 0 and (m.as_long() & (m.as_long() - 1)) == 0:
                return min(self.tz(v.arg(0)), m.as_long().bit_length() - 1)
        return 0

    # ------------------------------------------------------------------ expressions
    def ev(self, st, e):
        self._st = st
        m = getattr(self, 'js_' + e['type'], None)
        if m is None:
            raise Unsupported('JS expression %s @%s' % (e['type'], e['loc']['start']['line']))
        return m(st, e)

    def line(self, e):
        return e['loc']['start']['line']

    def js_Literal(self, st, e):
        v = e['value']
        if isinstance(v, bool): return z3.BoolVal(v)
        if isinstance(v, int):
            if abs(v) > TWO53: v = int(float(v))        # the double the literal denotes (exact as an integer)
            return self.num(v)
        if isinstance(v, float):
            if v == int(v): return self.num(int(v))
            raise Unsupported('non-integer literal')
        if isinstance(v, str): return strlit(v.encode('latin-1'))
        if v is None: return UNDEF
        raise Unsupported('literal %r' % v)

    def js_Identifier(self, st, e):
        n = e['name']
        if n in st.env: return st.env[n]
        if n == 'undefined': return UNDEF
        if n == 'NaN': return MaybeNaN(self.num(0), z3.BoolVal(True))
        if n == 'Infinity': raise Unsupported('Infinity')
        if n in self.js_consts: return self.num(self.js_consts[n])
        return JSFunc(n)

    def js_SequenceExpression(self, st, e):
        v = None
        for x in e['expressions']:
            v = self.ev(st, x)
        return v

    def js_ArrayExpression(self, st, e):
        return JSTuple([self.ev(st, x) for x in e['elements']])

    def js_ObjectExpression(self, st, e):
        # an object literal with plain identifier keys: a fresh mutable record
        fields = {}
        for pr in e['properties']:
            if pr.get('type') != 'Property' or pr.get('computed') or pr['key'].get('type') != 'Identifier' or pr.get('kind', 'init') != 'init':
                raise Unsupported('object literal property @%s' % self.line(e))
            fields[pr['key']['name']] = self.ev(st, pr['value'])
        return JSObj(fields, ref=fresh('obj'))

    def js_ConditionalExpression(self, st, e):
        c = self.truthy(st, self.ev(st, e['test']))
        if self.fork(st, c):
            return self.ev(st, e['consequent'])
        return self.ev(st, e['alternate'])

    def js_LogicalExpression(self, st, e):
        left = self.ev(st, e['left'])
        if e['operator'] == '||' and isinstance(left, JSObj) and '$nil' in left.fields:
            # `obj || alternative` on an object-or-false value (a Go map: nil maps are `false`): the operand itself
            if self.fork(st, z3.Not(left.fields['$nil'])):
                return left
            return self.ev(st, e['right'])
        a = self.truthy(st, left)
        st.guards.append(a if e['operator'] == '&&' else z3.Not(a))
        try:
            b = self.truthy(st, self.ev(st, e['right']))
        finally:
            st.guards.pop()
        return z3.And(a, b) if e['operator'] == '&&' else z3.Or(a, b)

    def unopt(self, st, v, line):
        if isinstance(v, OptNum):
            self.oblige(st, 'defined@%s' % line, z3.Not(v.undef), src=line)
            return v.val
        return v

    def truthy(self, st, v):
        if isinstance(v, z3.ExprRef) and z3.is_bool(v): return v
        if isinstance(v, z3.ExprRef): return v != self.num(0)
        if isinstance(v, MaybeNaN): return z3.And(z3.Not(v.nan), v.val != self.num(0))
        if isinstance(v, JSUndef): return z3.BoolVal(False)
        raise Unsupported('truthiness of %r' % (v,))

    def js_UnaryExpression(self, st, e):
        op = e['operator']
        x = self.ev(st, e['argument'])
        if op == '!': return z3.Not(self.truthy(st, x))
        if op == '-':
            if isinstance(x, z3.ExprRef) and z3.is_fp(x): return z3.fpNeg(x)
            return self.exact(st, -x, self.line(e))
        if op == '+': return x
        if op == '~':
            return self.toint32(-self.toint32(x) - 1) if self.mode != 'bv' else z3.SignExt(32, ~z3.Extract(31, 0, x))
        raise Unsupported('unary ' + op)

    def js_BinaryExpression(self, st, e):
        op = e['operator']
        a, b = self.ev(st, e['left']), self.ev(st, e['right'])
        return self.binop_js(st, op, a, b, self.line(e))

    def cmp_nan(self, a, b):
        nans = []
        if isinstance(a, MaybeNaN): nans.append(a.nan); a = a.val
        if isinstance(b, MaybeNaN): nans.append(b.nan); b = b.val
        return a, b, nans

    def quot_int(self, st, q):
        """truncation of a finite quotient of two integers: the shared symbol tdiv (L-div: the correctly rounded double quotient of
        integers below 2^53 truncates to the same integer as the exact quotient)"""
        self.assumed.add('L-div: truncation of the rounded double quotient of two integers < 2^53 equals truncation of the exact quotient')
        return self.tdiv(st, q.x, q.y)

    def tdiv(self, st, x, y):
        if self.mode == 'bv':
            return z3.If(y == 0, z3.BitVecVal(0, 64), x / y)          # bvsdiv on sign-extended operands
        t = TDIV(x, y)
        st.assume(z3.Implies(y != 0, z3.And(
            z3.Implies(z3.And(x >= 0, y > 0), z3.And(t >= 0, t <= x)), z3.Implies(z3.And(x <= 0, y < 0), z3.And(t >= 0, t <= -x)),
            z3.Implies(z3.And(x >= 0, y < 0), z3.And(t <= 0, t >= -x)), z3.Implies(z3.And(x <= 0, y > 0), z3.And(t <= 0, t >= x)),
            z3.Implies(y == 1, t == x), z3.Implies(y == -1, t == -x),
            z3.Implies(z3.Or(y >= 2, y <= -2), z3.And(2 * t <= z3.If(x >= 0, x, -x), 2 * t >= -z3.If(x >= 0, x, -x))))))
        return t

    def tmod(self, st, x, y):
        if self.mode == 'bv':
            return z3.If(y == 0, z3.BitVecVal(0, 64), z3.SRem(x, y))
        t = TMOD(x, y)
        st.assume(z3.Implies(y != 0, z3.And(z3.Implies(x >= 0, z3.And(t >= 0, t <= x)), z3.Implies(x <= 0, z3.And(t <= 0, t >= x)),
                                            z3.Implies(y > 0, z3.And(t < y, t > -y)), z3.Implies(y < 0, z3.And(t < -y, t > y)))))
        return t

    def binop_fp(self, st, op, a, b, line):
        rm = z3.RNE()
        if op in ('===', '=='): return z3.fpEQ(a, b)
        if op in ('!==', '!='): return z3.Not(z3.fpEQ(a, b))
        if op == '<': return z3.fpLT(a, b)
        if op == '<=': return z3.fpLEQ(a, b)
        if op == '>': return z3.fpGT(a, b)
        if op == '>=': return z3.fpGEQ(a, b)
        if op == '+': return z3.fpAdd(rm, a, b)
        if op == '-': return z3.fpSub(rm, a, b)
        if op == '*': return z3.fpMul(rm, a, b)
        if op == '/': return z3.fpDiv(rm, a, b)
        if op in ('&', '|', '^', '<<', '>>', '>>>'):
            bz = z3.simplify(b)
            zero = z3.is_fp_value(bz) and z3.is_true(z3.simplify(z3.fpIsZero(bz)))
            if zero and op in ('>>', '|'):
                return self.fp_toint(a, True)            # x >> 0, x | 0
            if zero and op == '>>>':
                return self.fp_toint(a, False)           # x >>> 0
            # ECMA-262 13.9-13.12: both operands through ToInt32 (ToUint32 for the left operand of >>>), shift counts masked
            # to five bits, the result is the signed (>>>: unsigned) 32-bit integer
            x, y = self.fp_bv32(a), self.fp_bv32(b)
            sh = y & z3.BitVecVal(31, 32)
            if op == '>>>':
                return z3.fpUnsignedToFP(rm, z3.LShR(x, sh), F64)
            r = {'&': lambda: x & y, '|': lambda: x | y, '^': lambda: x ^ y, '<<': lambda: x << sh, '>>': lambda: x >> sh}[op]()
            return z3.fpSignedToFP(rm, r, F64)
        raise Unsupported('operator %s in mode fp @%s' % (op, line))

    def fp_bv32(self, v):
        """the low 32 bits of ToInt32/ToUint32 of a double (mode fp)"""
        if z3.is_app(v) and v.num_args() == 2 and z3.is_bv(v.arg(1)) and v.arg(1).size() == 32 and v.sort() == F64 \
           and v.decl().kind() in (z3.Z3_OP_FPA_TO_FP, z3.Z3_OP_FPA_TO_FP_UNSIGNED):
            return v.arg(1)          # a 32-bit integer converted to double (exact): the integer itself
        big = z3.fpToSBV(z3.RTZ(), v, z3.BitVecSort(64))
        fin = z3.And(z3.Not(z3.fpIsNaN(v)), z3.Not(z3.fpIsInf(v)))
        return z3.simplify(z3.If(fin, z3.Extract(31, 0, big), z3.BitVecVal(0, 32)))

    def binop_js(self, st, op, a, b, line):
        if self.mode == 'fp' and isinstance(a, z3.ExprRef) and isinstance(b, z3.ExprRef) and z3.is_fp(a) and z3.is_fp(b):
            return self.binop_fp(st, op, a, b, line)
        if (isinstance(a, JSStrId) or isinstance(b, JSStrId)) and op == '+':
            return JSStrId(fresh('concat'))              # string concatenation with an opaque string: an opaque string
        if isinstance(a, JSStrId) or isinstance(b, JSStrId):
            if op not in ('===', '!==', '==', '!='):
                raise Unsupported('operator %s on a descriptor string @%s' % (op, line))
            r = self.as_key(a) == self.as_key(b)        # strings as identities: equal identities, equal strings
            return r if op in ('===', '==') else z3.Not(r)
        if op in ('===', '!==', '==', '!=') and ((isinstance(a, JSDesc) and isinstance(b, JSFunc)) or (isinstance(a, JSFunc) and isinstance(b, JSDesc))):
            # a type descriptor compared with a named global type ($jsObjectPtr, ...): an abstract predicate of the descriptor
            d, f = (a, b) if isinstance(a, JSDesc) else (b, a)
            r = z3.Function('isglobal_' + re.sub(r'\W', '_', f.name), I, B)(d.ref)
            return r if op in ('===', '==') else z3.Not(r)
        if isinstance(a, (JSRec, JSDesc)) or isinstance(b, (JSRec, JSDesc)):
            if op in ('===', '!==', '==', '!=') and isinstance(a, (JSRec, JSDesc)) and isinstance(b, (JSRec, JSDesc)):
                r = a.ref == b.ref
                return r if op in ('===', '==') else z3.Not(r)
            if op in ('===', '!==', '==', '!=') and (isinstance(a, JSUndef) or isinstance(b, JSUndef)):
                return z3.BoolVal(op in ('!==', '!='))          # an object is not undefined
            raise Unsupported('operator %s on an object @%s' % (op, line))
        if op in ('===', '!==') and isinstance(a, OptNum) and isinstance(b, JSUndef):
            return a.undef if op == '===' else z3.Not(a.undef)
        if op in ('===', '!==', '==', '!=') and isinstance(a, JSObj) and isinstance(b, JSFunc) and (b.name.endswith('.nil') or b.name in ('$chanNil', '$ifaceNil')) and '$nil' in a.fields:
            return a.fields['$nil'] if op in ('===', '==') else z3.Not(a.fields['$nil'])
        if op in ('===', '!==', '==', '!=') and isinstance(a, JSOptFn) and isinstance(b, JSUndef):
            return a.undef if op in ('===', '==') else z3.Not(a.undef)
        if op in ('===', '!==', '==', '!=') and isinstance(a, JSFunc) and isinstance(b, JSFunc) and a.name == 'arrayctor' and b.name == 'Array':
            if a.of.plain is None: raise Unsupported('array kind unknown')
            return a.of.plain if op in ('===', '==') else z3.Not(a.of.plain)
        if op in ('===', '!==', '==', '!=') and isinstance(a, JSFunc) and isinstance(b, JSFunc) and (a.name.endswith('.nativeArray') or b.name.endswith('.nativeArray')):
            na = a if a.name.endswith('.nativeArray') else b
            fl = getattr(na, 'flag', None)
            if fl is None: raise Unsupported('nativeArray comparison')
            return fl if op in ('===', '==') else z3.Not(fl)
        a, b = self.unopt(st, a, line), self.unopt(st, b, line)
        if isinstance(a, (JSQuot, JSInf)) or isinstance(b, (JSQuot, JSInf)):
            return self.quot_op(st, op, a, b, line)
        if op in ('===', '!==', '==', '!='):
            if isinstance(a, JSUndef) or isinstance(b, JSUndef):
                r = z3.BoolVal(isinstance(a, JSUndef) and isinstance(b, JSUndef))
                if isinstance(a, JSObj) or isinstance(b, JSObj):
                    o = a if isinstance(a, JSObj) else b
                    r = o.fields.get('$undefined', z3.BoolVal(False))
                return r if op in ('===', '==') else z3.Not(r)
            if isinstance(a, (JSObj, JSArr)) and isinstance(b, (JSObj, JSArr)):
                ra = a.ref if isinstance(a, JSObj) else a.ident
                rb = b.ref if isinstance(b, JSObj) else b.ident
                if ra is None or rb is None: raise Unsupported('identity of an object without reference')
                r = ra == rb
                return r if op in ('===', '==') else z3.Not(r)
            if isinstance(a, StrV) and isinstance(b, StrV):
                r = self.str_eq(a, b)
                return r if op in ('===', '==') else z3.Not(r)
            if isinstance(a, JSFunc) and isinstance(b, JSFunc):
                r = z3.BoolVal(a.name == b.name)
                return r if op in ('===', '==') else z3.Not(r)
            a2, b2, nans = self.cmp_nan(a, b)
            r = a2 == b2
            if nans: r = z3.And(z3.Not(z3.Or(nans)), r)
            return r if op in ('===', '==') else z3.Not(r)
        if op in ('<', '<=', '>', '>=') and (isinstance(a, JSUndef) or isinstance(b, JSUndef)):
            return z3.BoolVal(False)          # undefined converts to NaN
        if op in ('<', '<=', '>', '>='):
            a2, b2, nans = self.cmp_nan(a, b)
            r = {'<': a2 < b2, '<=': a2 <= b2, '>': a2 > b2, '>=': a2 >= b2}[op]
            if nans: r = z3.And(z3.Not(z3.Or(nans)), r)
            return r
        if op == '+' and isinstance(a, StrV):
            return self.str_concat(st, a, b)
        if isinstance(a, MaybeNaN) or isinstance(b, MaybeNaN):
            if op in ('&', '|', '^', '<<', '>>', '>>>'):
                a = self.toint32(a) if isinstance(a, MaybeNaN) else a
                b = self.toint32(b) if isinstance(b, MaybeNaN) else b
            else:
                raise Unsupported('arithmetic on a possibly-NaN value @%s' % line)
        if op == '+': return self.exact(st, a + b, line)
        if op == '-': return self.exact(st, a - b, line)
        if op == '*': return self.exact(st, self.mul(st, a, b, line), line)
        if op == '%':
            # JS remainder has the sign of the dividend (Go's %); NaN when the divisor is 0; exact on integers
            return MaybeNaN(self.tmod(st, a, b), b == self.num(0))
        if op == '/':
            ac, bc = z3.simplify(a), z3.simplify(b)
            if z3.is_int_value(bc) and bc.as_long() == 0 and z3.is_int_value(ac) and ac.as_long() != 0:
                return JSInf(1 if ac.as_long() > 0 else -1)
            if z3.is_bv_value(bc) and bc.as_long() == 0 and z3.is_bv_value(ac) and ac.as_signed_long() != 0:
                return JSInf(1 if ac.as_signed_long() > 0 else -1)
            return JSQuot(a, b)
        if self.mode == 'bv':
            return self.bitop_bv(op, a, b)
        return self.bitop_int(st, op, a, b, line)

    def quot_op(self, st, op, a, b, line):
        z = self.num(0)
        if op in ('===', '!==') and isinstance(a, JSQuot) and isinstance(b, JSQuot) and a is b:
            r = z3.Not(z3.And(a.x == z, a.y == z))            # q === q  <=>  q is not NaN
            return r if op == '===' else z3.Not(r)
        if op in ('===', '!==') and isinstance(a, JSQuot) and isinstance(b, JSInf):
            r = z3.And(a.y == z, (a.x > z) if b.sign > 0 else (a.x < z))     # x / 0 is +Inf for x > 0 (y is +0: integers have no -0)
            return r if op == '===' else z3.Not(r)
        if op in ('>>', '>>>', '|') and isinstance(a, JSQuot):
            t = z3.If(a.y == z, z, self.quot_int(st, a))       # ToInt32(NaN) = ToInt32(+-Inf) = 0
            return self.binop_js(st, op, t, b, line)
        raise Unsupported('operator %s on a quotient @%s' % (op, line))

    def mul(self, st, a, b, line):
        if self.mode == 'bv':
            return a * b
        ac, bc = z3.simplify(a), z3.simplify(b)
        if z3.is_int_value(ac) or z3.is_int_value(bc):
            return a * b
        return self.abstract_product(st, a, b, line)

    def abstract_product(self, st, a, b, line):
        """product of two non-constant terms: an uninterpreted symbol plus the bound facts that follow from operand ranges that
        are syntactically known (x % 2^k, x / 2^k of a bounded x); algebraic identities enter as lemmas."""
        p = PROD(a, b)
        ra, rb = self.range_of(a), self.range_of(b)
        if ra and rb:
            cs = [ra[0] * rb[0], ra[0] * rb[1], ra[1] * rb[0], ra[1] * rb[1]]
            st.assume(z3.And(p >= min(cs), p <= max(cs)))
            self.know(p, min(cs), max(cs))
        self.nonlinear = getattr(self, 'nonlinear', 0) + 1
        return p

    def range_of(self, v, depth=0):
        """syntactic interval of an Int term (sound, incomplete)"""
        if depth > 12 or not isinstance(v, z3.ExprRef) or v.sort() != I:
            return None
        kr = getattr(self, 'known_ranges', {})
        if v.get_id() in kr:
            return kr[v.get_id()]
        v = z3.simplify(v)
        if v.get_id() in kr:
            return kr[v.get_id()]
        if z3.is_int_value(v):
            return (v.as_long(), v.as_long())
        if not z3.is_app(v):
            return None
        k = v.decl().kind()
        if k == z3.Z3_OP_MOD:
            m = z3.simplify(v.arg(1))
            if z3.is_int_value(m) and m.as_long() > 0:
                r = self.range_of(v.arg(0), depth + 1)
                if r and r[0] >= 0 and r[1] < m.as_long():
                    return r
                return (0, m.as_long() - 1)
        if k == z3.Z3_OP_IDIV:
            r = self.range_of(v.arg(0), depth + 1); d = z3.simplify(v.arg(1))
            if r and z3.is_int_value(d) and d.as_long() > 0:
                return (r[0] // d.as_long(), r[1] // d.as_long())
        if k == z3.Z3_OP_ITE:
            a, b = self.range_of(v.arg(1), depth + 1), self.range_of(v.arg(2), depth + 1)
            if a and b: return (min(a[0], b[0]), max(a[1], b[1]))
        if k == z3.Z3_OP_ADD:
            rs = [self.range_of(c, depth + 1) for c in v.children()]
            if all(rs): return (sum(r[0] for r in rs), sum(r[1] for r in rs))
        if k == z3.Z3_OP_SUB and v.num_args() == 2:
            a, b = self.range_of(v.arg(0), depth + 1), self.range_of(v.arg(1), depth + 1)
            if a and b: return (a[0] - b[1], a[1] - b[0])
        if k == z3.Z3_OP_MUL and v.num_args() == 2:
            a, b = self.range_of(v.arg(0), depth + 1), self.range_of(v.arg(1), depth + 1)
            if a and b:
                c = [a[0] * b[0], a[0] * b[1], a[1] * b[0], a[1] * b[1]]
                return (min(c), max(c))
        if k == z3.Z3_OP_UMINUS:
            a = self.range_of(v.arg(0), depth + 1)
            if a: return (-a[1], -a[0])
        return None

    def know(self, v, lo, hi):
        if not hasattr(self, 'known_ranges'): self.known_ranges = {}
        self.known_ranges[v.get_id()] = (lo, hi)
        sv = z3.simplify(v)
        self.known_ranges[sv.get_id()] = (lo, hi)

    def bitop_bv(self, op, a, b):
        a32, b32 = z3.Extract(31, 0, a), z3.Extract(31, 0, b)
        cnt = b32 & z3.BitVecVal(31, 32)
        if op == '&': return z3.SignExt(32, a32 & b32)
        if op == '|': return z3.SignExt(32, a32 | b32)
        if op == '^': return z3.SignExt(32, a32 ^ b32)
        if op == '<<': return z3.SignExt(32, a32 << cnt)
        if op == '>>': return z3.SignExt(32, a32 >> cnt)
        if op == '>>>': return z3.ZeroExt(32, z3.LShR(a32, cnt))
        raise Unsupported('bv operator ' + op)

    def bitop_int(self, st, op, a, b, line):
        bc = z3.simplify(b)
        if op in ('<<', '>>', '>>>'):
            if not z3.is_int_value(bc):
                raise Unsupported('variable shift count in mode jn @%s (use mode bv)' % line)
            k = bc.as_long() & 31
            if op == '>>>':
                ua = self.u32(a)
                return self.dm(ua, 1 << k)[0] if k else ua
            if op == '>>': return self.dm(self.toint32(a), 1 << k)[0] if k else self.toint32(a)
            u = self.touint32(self.u32(a) * (1 << k))
            self.tzinfo[u.get_id()] = k            # (v * 2^k) mod 2^32 keeps k trailing zero bits
            self._keep.append(u)
            r = self.toint32(u)
            self.u32view[r.get_id()] = u          # remember the unsigned reading of this int32 result
            self._keep.append(r)
            return r
        if op == '&':
            for x, y in ((a, b), (b, a)):
                yc = z3.simplify(y)
                if z3.is_int_value(yc):
                    m = yc.as_long()
                    if m >= 0 and (m & (m + 1)) == 0:
                        return self.dm(self.u32(x), m + 1)[1]
            raise Unsupported('& with a non-mask operand in mode jn @%s' % line)
        if op == '|':
            if z3.is_int_value(bc) and bc.as_long() == 0:
                return self.toint32(a)
            for x, y in ((a, b), (b, a)):
                ux, uy = self.u32(x), self.u32(y)
                k = self.tz(ux)
                if k >= 1:
                    k = min(k, 32)
                    # disjoint-or on the unsigned readings: ux has k trailing zero bits, uy fits below them
                    self.oblige(st, 'disjoint-or@%s' % line, z3.And(uy >= 0, uy < (1 << k)), src=line)
                    u = ux + uy
                    r = self.toint32(u)
                    self.u32view[r.get_id()] = u
                    self._keep += [u, r]
                    return r
            raise Unsupported('| of overlapping operands in mode jn @%s (use mode bv)' % line)
        raise Unsupported('operator %s in mode jn @%s' % (op, line))

    def js_UpdateExpression(self, st, e):
        old = self.ev(st, e['argument'])
        new = self.exact(st, old + self.num(1) if e['operator'] == '++' else old - self.num(1), self.line(e))
        self.assign(st, e['argument'], new)
        return new if e['prefix'] else old

    def js_AssignmentExpression(self, st, e):
        op = e['operator']
        if op == '=':
            v = self.ev(st, e['right'])
        else:
            v = self.binop_js(st, op[:-1], self.ev(st, e['left']), self.ev(st, e['right']), self.line(e))
        self.assign(st, e['left'], v)
        return v

    def assign(self, st, target, v):
        if st.guards:
            raise Unsupported('assignment under short-circuit guard')
        if target['type'] == 'Identifier':
            st.env[target['name']] = v
            return
        if target['type'] == 'MemberExpression':
            obj = self.ev(st, target['object'])
            if target['computed']:
                i = self.ev(st, target['property'])
                if isinstance(obj, JSRec):
                    h = self.rech(st)
                    st.ghost[('rech',)] = z3.Store(h, obj.ref, z3.Store(z3.Select(h, obj.ref), self.as_key(i), self.as_cell(v)))
                    return
                if isinstance(obj, JSArr):
                    self.arr_write(st, obj, i, v, self.line(target))
                    return
                raise Unsupported('computed assignment on %r' % (obj,))
            if isinstance(obj, JSRec):
                raise Unsupported('static property assignment on a value object')
            name = target['property']['name']
            if isinstance(obj, JSObj):
                obj.fields[name] = v      # objects created in the function are mutable records
                return
            if isinstance(obj, JSArr) and name == 'length' and getattr(obj, 'fresh', False):
                obj.length = v            # resizing a freshly created plain array (new slots are undefined until written)
                return
        raise Unsupported('assignment target %s' % target['type'])

    # arrays with identity ------------------------------------------------------------------------
    def heap(self, st):
        if ('jsheap',) not in st.ghost:
            st.ghost[('jsheap',)] = z3.Const('JSHEAP', HEAP)
        return st.ghost[('jsheap',)]

    def arr_read(self, st, a, i, line):
        if self.mode == 'bv': i = z3.BV2Int(i, True)
        if a.off is not None: i = a.off + i
        v = z3.Select(z3.Select(self.heap(st), a.ident), i)
        return v

    def new_array(self, st, n, kind='num', plain=None):
        ident = fresh('arr.id'); st.assume(ident > 0)
        for r in st.meta.get('arrids', []): st.assume(ident != r)
        st.meta['arrids'] = st.meta.get('arrids', []) + [ident]
        a = JSArr(ident, n, kind, plain=plain); a.fresh = True
        st.meta['fresh_js'] = set(st.meta.get('fresh_js', set())) | {ident.get_id()}
        return a

    def arr_write(self, st, a, i, v, line):
        h = self.heap(st)
        if isinstance(v, MaybeNaN):
            self.oblige(st, 'stored-value-not-NaN@%s' % line, z3.Not(v.nan), src=line)
            v = v.val
        if a.kind == 'u8':
            v = self.touint32(v) % 256
        if a.off is not None: i = a.off + i
        st.ghost[('jsheap',)] = z3.Store(h, a.ident, z3.Store(z3.Select(h, a.ident), i, v))

    def rech(self, st):
        if ('rech',) not in st.ghost:
            st.ghost[('rech',)] = z3.Const('RECHEAP', HEAP)
        return st.ghost[('rech',)]

    def callghost(self, st, name, which):
        k = ('callghost', name, which)
        if k not in st.ghost:
            st.ghost[k] = z3.Const('CALL_%s_%s' % (name, which), ArrII)
        return st.ghost[k]

    def strlit_id(self, lit):
        tab = self.__dict__.setdefault('_strlit_ids', {})
        return z3.IntVal(tab.setdefault(bytes(lit), -1000 - len(tab)))       # distinct literals: distinct (negative) identities

    def as_key(self, v):
        if isinstance(v, JSStrId): return v.id
        if isinstance(v, StrV) and v.lit is not None: return self.strlit_id(v.lit)
        if isinstance(v, z3.ExprRef) and z3.is_int(v): return v
        raise Unsupported('property key %r' % (v,))

    def as_cell(self, v):
        if isinstance(v, (JSRec, JSDesc)): return v.ref
        if isinstance(v, z3.ExprRef) and z3.is_int(v): return v
        raise Unsupported('a value that cannot be stored in a record: %r' % (v,))

    def js_MemberExpression(self, st, e):
        obj = self.ev(st, e['object'])
        if isinstance(obj, JSRec):
            if not e['computed']:
                raise Unsupported('static property .%s of a value object' % e['property']['name'])
            k = self.as_key(self.ev(st, e['property']))
            return z3.Select(z3.Select(self.rech(st), obj.ref), k)
        if isinstance(obj, JSDesc) and not e['computed']:
            name = e['property']['name']
            if name in DESC_FN_FIELDS: return JSDescFn(obj, name)
            if name in DESC_REF_FIELDS: return JSDesc(desc_field(obj.ref, name))
            if name in DESC_STR_FIELDS: return JSStrId(desc_field(obj.ref, name))
            if name in DESC_BOOL_FIELDS or name in DESC_INT_FIELDS: return desc_field(obj.ref, name)
            raise Unsupported('descriptor field .%s' % name)
        if e['computed']:
            i = self.ev(st, e['property'])
            if isinstance(obj, JSArr) and obj.kind == 'desc':
                return JSDesc(self.arr_read(st, obj, i, self.line(e)))
            if isinstance(obj, JSArr):
                if getattr(obj, 'isnil', None) is not None and self.fork(st, obj.isnil):
                    return UNDEF
                return self.arr_read(st, obj, i, self.line(e))
            if isinstance(obj, JSTuple):
                ic = z3.simplify(i)
                return obj.items[ic.as_long()]
            raise Unsupported('computed member of %r' % (obj,))
        name = e['property']['name']
        if isinstance(obj, StrV) and name == 'length':
            return obj.len if self.mode != 'bv' else z3.Int2BV(obj.len, 64)
        if isinstance(obj, JSArr) and getattr(obj, 'isnil', None) is not None and name in ('length', 'nilCheck'):
            # the nil pointer object has no length; its nilCheck getter raises the nil dereference panic
            if self.fork(st, obj.isnil):
                if name == 'nilCheck':
                    raise PanicEx('invalid memory address or nil pointer dereference')
                return UNDEF
            return obj.length if name == 'length' else UNDEF
        if isinstance(obj, JSArr) and name == 'length':
            return obj.length
        if isinstance(obj, JSArr) and name == 'subarray':
            if obj.plain is None: raise Unsupported('array kind unknown')
            return z3.Not(obj.plain)        # only typed arrays have subarray
        if isinstance(obj, JSArr) and name == 'constructor':
            f = JSFunc('arrayctor'); f.of = obj
            return f
        if isinstance(obj, JSObj):
            if name == 'constructor' and 'constructor' in obj.fields:
                return obj.fields['constructor']          # a boxed value: its constructor is the type descriptor
            if name == 'constructor':
                f = JSFunc('ctor:' + (obj.ctor or '?')); f.of = obj
                return f
            if name in obj.fields:
                return obj.fields[name]
            if name == 'nativeArray' and '$isArray' in obj.fields:
                f = JSFunc('typ.nativeArray'); f.flag = obj.fields['$isArray']
                return f
            if name == 'zero' and obj.ctor == 'Type':
                return JSFunc('elem.zero')
            raise Unsupported('object has no modelled field %s' % name)
        if isinstance(obj, JSFunc):
            of = getattr(obj, 'of', None)
            if name == 'elem' and isinstance(of, JSObj) and '$elemtype' in of.fields:
                return of.fields['$elemtype']
            return JSFunc(obj.name + '.' + name)
        if isinstance(obj, z3.ExprRef) and name == 'constructor' and not z3.is_bool(obj):
            return JSFunc('Number')
        raise Unsupported('member .%s of %r @%s' % (name, obj, self.line(e)))

    def js_NewExpression(self, st, e):
        c0 = e['callee']
        if c0.get('type') == 'MemberExpression' and not c0.get('computed') and c0['object'].get('name') == '$global' and c0['property'].get('name') == 'Map' and not e['arguments']:
            return JSObj({'$nil': z3.BoolVal(False)}, ctor='GoMap', ref=fresh('obj'))          # new $global.Map(): an empty, non-nil Go map
        callee = self.ev(st, e['callee'])
        args = [self.ev(st, a) for a in e['arguments']]
        if isinstance(callee, JSFunc) and callee.name.startswith('ctor:'):
            kind = callee.name[5:]
            return self.construct(st, kind, args, self.line(e))
        if isinstance(callee, JSFunc) and callee.name in ('$Int64', '$Uint64'):
            return self.construct(st, callee.name[1:], args, self.line(e))
        if isinstance(callee, JSObj) and callee.ctor == 'SliceType':
            return self.construct(st, 'Slice', args, self.line(e))
        if isinstance(callee, JSFunc) and callee.name == 'arrayctor':
            n = self.unopt(st, args[0], self.line(e))
            a = self.new_array(st, n, callee.of.kind, plain=callee.of.plain)
            h = self.heap(st)
            st.ghost[('jsheap',)] = z3.Store(h, a.ident, z3.K(I, z3.IntVal(0)))       # typed arrays are zero-filled
            return a
        if isinstance(callee, JSFunc) and callee.name == 'typ.nativeArray':
            n = self.unopt(st, args[0], self.line(e))
            ident = fresh('arr.id'); st.assume(ident > 0)
            for r in st.meta.get('arrids', []): st.assume(ident != r)
            st.meta['arrids'] = st.meta.get('arrids', []) + [ident]
            h = self.heap(st)
            st.ghost[('jsheap',)] = z3.Store(h, ident, z3.K(I, z3.IntVal(0)))
            a = JSArr(ident, n, 'num'); a.fresh = True
            return a
        if isinstance(callee, JSFunc) and callee.name in ('Uint8Array', 'Int32Array', 'Uint16Array', 'Uint32Array', 'Int8Array', 'Int16Array'):
            n = args[0]
            a = self.new_array(st, n, 'u8' if callee.name == 'Uint8Array' else 'num', plain=z3.BoolVal(False))
            h = self.heap(st)
            st.ghost[('jsheap',)] = z3.Store(h, a.ident, z3.K(I, z3.IntVal(0)))
            return a
        if isinstance(callee, JSFunc) and callee.name == 'Array':
            n = args[0]
            ident = fresh('arr.id'); st.assume(ident > 0)
            for r in st.meta.get('arrids', []): st.assume(ident != r)
            st.meta['arrids'] = st.meta.get('arrids', []) + [ident]
            a = JSArr(ident, n, 'num'); a.fresh = True
            return a
        raise Unsupported('new %r @%s' % (getattr(callee, 'name', callee), self.line(e)))

    def construct(self, st, kind, args, line):
        """`new x.constructor(high, low)`: resolved through the 64-bit constructors' own contract (types.js regions):
        $high = ToInt32/ToUint32(high + floor(ceil(low) / 2^32)), $low = ToUint32(low)."""
        if kind in ('Int64', 'Uint64'):
            high, low = args
            if self.mode == 'bv':
                carry = z3.SignExt(32, z3.Extract(63, 32, low)) if True else None    # floor(low / 2^32) for integers
                h = high + carry
                hv = z3.SignExt(32, z3.Extract(31, 0, h)) if kind == 'Int64' else z3.ZeroExt(32, z3.Extract(31, 0, h))
                lv = z3.ZeroExt(32, z3.Extract(31, 0, low))
            else:
                self._st = st
                h = high + self.dm(low, TWO32)[0]        # floor(ceil(low) / 2^32): low is an integer here
                hv = self.toint32(h) if kind == 'Int64' else self.touint32(h)
                lv = self.touint32(low)
            self.assumed.add('64-bit constructor contract (types.js $kindInt64/$kindUint64 regions, verified separately under C06)')
            return JSObj({'$high': hv, '$low': lv}, ctor=kind, ref=fresh('obj'))
        if kind == 'Slice':
            # types.js, $newType case $kindSlice: offset 0, length and capacity of the array (the array is assumed to be of the
            # type's native array class already, which is what every caller in the prelude passes)
            arr = args[0]
            if not isinstance(arr, JSArr): raise Unsupported('slice constructor on a non-array')
            self.assumed.add('slice constructor region ($kindSlice): $offset = 0, $length = $capacity = array.length')
            return JSObj({'$array': arr, '$offset': self.num(0), '$length': arr.length, '$capacity': arr.length, '$nil': z3.BoolVal(False)}, ctor='Slice', ref=fresh('obj'))
        raise Unsupported('constructor of %s' % kind)

    def js_CallExpression(self, st, e):
        c = e['callee']
        args = e['arguments']
        line = self.line(e)
        if c['type'] == 'MemberExpression' and not c['computed']:
            mname = c['property']['name']
            if c['object']['type'] == 'Identifier' and c['object']['name'] == 'Math':
                return self.math(st, mname, args, line)
            if c['object']['type'] == 'Identifier' and c['object']['name'] == 'String' and mname == 'fromCharCode':
                vals = [self.ev(st, a) for a in args]
                return self.from_char_codes(st, vals)
            if mname == 'apply' and c['object']['type'] == 'MemberExpression' and not c['object']['computed'] \
               and c['object']['object'].get('name') == 'String' and c['object']['property'].get('name') == 'fromCharCode':
                # String.fromCharCode.apply(undefined, typedArray): the string whose code units are the elements (ECMA-262
                # 22.1.2.1 with Function.prototype.apply spreading an array-like); elements here are bytes
                src = self.ev(st, args[1])
                if not isinstance(src, JSArr):
                    raise Unsupported('fromCharCode.apply on a non-array @%s' % line)
                self.assumed.add('String.fromCharCode.apply(undefined, bytes) builds the string of those code units (ECMA-262)')
                h = self.heap(st)
                sb = src.off if src.off is not None else z3.IntVal(0)
                olda = z3.Select(h, src.ident)
                na = fresh('fcc.arr', ArrII); k = fresh('k!fcc')
                st.assume(z3.ForAll([k], z3.Implies(z3.And(0 <= k, k < src.length), z3.Select(na, k) == z3.Select(olda, sb + k)),
                                    patterns=[z3.Select(na, k)]))
                return StrV(na, z3.IntVal(0), src.length)
            obj = self.ev(st, c['object'])
            if isinstance(obj, JSDesc) and mname == 'zero' and not args:
                # T.zero(): a new value object of the type (different from every value object the function holds)
                r = fresh('zero.ref'); st.assume(r > 0)
                for v in st.env.values():
                    if isinstance(v, JSRec): st.assume(r != v.ref)
                return JSRec(r)
            if isinstance(obj, JSDesc) and mname == 'keyFor' and len(args) == 1:
                # the map-key string of a value, computed by the value's type: opaque (a string identity)
                self.ev(st, args[0])
                return JSStrId(fresh('keyfor'))
            if isinstance(obj, JSObj) and obj.ctor == 'GoMap' and mname in ('set', 'delete'):
                for a in args: self.ev(st, a)
                return UNDEF            # the contents of maps are not modelled
            if isinstance(obj, JSFunc) and mname == 'keyFor' and len(args) == 1:
                self.ev(st, args[0])
                return JSStrId(fresh('keyfor'))
            if isinstance(obj, JSQueue) and mname == 'shift' and not args:
                return JSOptFn(fresh('q.empty', B))
            if isinstance(obj, JSDesc) and mname == 'copy' and len(args) == 2:
                # f.typ.copy(a, b), the copy function of another type: an abstract call.  It writes the object a (and nothing
                # that this function can see besides) and is recorded: copiedFrom(a) = b, copiedBy(a) = the type.
                a, b = self.as_cell(self.ev(st, args[0])), self.as_cell(self.ev(st, args[1]))
                self.assumed.add('typ.copy(dst, src) of a field type writes the object dst only (assumed frame of the callee)')
                h = self.rech(st)
                st.ghost[('rech',)] = z3.Store(h, a, fresh('copied.row', ArrII))
                st.ghost[('callghost', 'copy', 'from')] = z3.Store(self.callghost(st, 'copy', 'from'), a, b)
                st.ghost[('callghost', 'copy', 'by')] = z3.Store(self.callghost(st, 'copy', 'by'), a, obj.ref)
                return UNDEF
            if isinstance(obj, z3.ExprRef) and z3.is_int(obj) and mname == 'slice' and ('rech',) in st.ghost:
                # x.slice(...) on an object read from a value object: a new array object (Array.prototype.slice never returns its
                # receiver); its contents are not modelled
                for a in args: self.ev(st, a)
                r = fresh('slice.obj'); st.assume(z3.And(r > 0, r != obj))
                return r
            if isinstance(obj, JSObj) and obj.ctor == 'Type' and mname == 'zero':
                return fresh('zero')           # the element type's zero value: opaque
            if isinstance(obj, StrV):
                if mname == 'charCodeAt':
                    i = self.ev(st, args[0])
                    if self.mode == 'bv': i = z3.BV2Int(i, True)
                    inr = z3.And(0 <= i, i < obj.len)
                    v = z3.Select(obj.arr, obj.off + i)
                    st.assume(z3.Implies(inr, z3.And(v >= 0, v <= 255)))
                    self.know(z3.If(z3.Not(inr), self.num(0), v), 0, 255) if self.mode != 'bv' else None
                    return MaybeNaN(v if self.mode != 'bv' else z3.Int2BV(v, 64), z3.Not(inr))
                if mname == 'substring':
                    lo, hi = self.ev(st, args[0]), self.ev(st, args[1])
                    if isinstance(hi, OptNum):            # substring(lo, undefined) runs to the end of the string (ECMA-262 22.1.3.25)
                        hi = z3.If(hi.undef, obj.len, hi.val)
                    elif isinstance(hi, JSUndef):
                        hi = obj.len
                    # String.prototype.substring clamps and swaps; contracts only call it with 0 <= lo <= hi <= length
                    self.oblige(st, 'substring-args@%s' % line, z3.And(0 <= lo, lo <= hi, hi <= obj.len), src=line)
                    return StrV(obj.arr, obj.off + lo, hi - lo)
            if isinstance(obj, JSArr) and mname == 'subarray':
                # %TypedArray%.prototype.subarray(begin, end): a view on the same buffer (ECMA-262 23.2.3.30); arguments in range
                lo, hi = self.ev(st, args[0]), self.ev(st, args[1])
                self.oblige(st, 'subarray-args@%s' % line, z3.And(0 <= lo, lo <= hi, hi <= obj.length), src=line)
                self.assumed.add('%TypedArray%.prototype.subarray returns a view sharing the buffer (ECMA-262)')
                base = obj.off if obj.off is not None else z3.IntVal(0)
                return JSArr(obj.ident, hi - lo, obj.kind, off=base + lo, plain=z3.BoolVal(False))
            if isinstance(obj, JSArr) and mname == 'slice':
                # Array.prototype.slice(begin, end): a new array holding a shallow copy of the range (ECMA-262 23.1.3.28)
                lo, hi = self.ev(st, args[0]), self.ev(st, args[1])
                self.oblige(st, 'slice-args@%s' % line, z3.And(0 <= lo, lo <= hi, hi <= obj.length), src=line)
                self.assumed.add('Array.prototype.slice returns a new array with a shallow copy of the range (ECMA-262)')
                a = self.new_array(st, hi - lo, obj.kind, plain=obj.plain)
                h = self.heap(st)
                base = obj.off if obj.off is not None else z3.IntVal(0)
                na = fresh('slice.arr', ArrII); k = fresh('k!sl')
                st.assume(z3.ForAll([k], z3.Implies(z3.And(0 <= k, k < hi - lo), z3.Select(na, k) == z3.Select(z3.Select(h, obj.ident), base + lo + k))))
                st.ghost[('jsheap',)] = z3.Store(h, a.ident, na)
                return a
            if isinstance(obj, JSArr) and mname == 'set':
                # %TypedArray%.prototype.set(source[, offset]): copies source into this at offset, correct also when the buffers
                # overlap (ECMA-262 23.2.3.26 clones an overlapping source first)
                src = self.ev(st, args[0])
                at = self.ev(st, args[1]) if len(args) > 1 else z3.IntVal(0)
                if not isinstance(src, JSArr): raise Unsupported('set() from a non-array')
                self.oblige(st, 'set-args@%s' % line, z3.And(at >= 0, at + src.length <= obj.length), src=line)
                self.assumed.add('%TypedArray%.prototype.set copies with memmove semantics (ECMA-262)')
                h = self.heap(st)
                sb = src.off if src.off is not None else z3.IntVal(0)
                db = obj.off if obj.off is not None else z3.IntVal(0)
                old_dst, old_src = z3.Select(h, obj.ident), z3.Select(h, src.ident)
                na = fresh('set.arr', ArrII); k = fresh('k!set')
                st.assume(z3.ForAll([k], z3.Select(na, k) == z3.If(z3.And(db + at <= k, k < db + at + src.length), z3.Select(old_src, sb + (k - db - at)), z3.Select(old_dst, k))))
                st.ghost[('jsheap',)] = z3.Store(h, obj.ident, na)
                return UNDEF
            if isinstance(obj, JSArr):
                raise Unsupported('array method %s' % mname)
            raise Unsupported('method call .%s on %r @%s' % (mname, obj, line))
        if c['type'] == 'Identifier':
            name = c['name']
            lv = st.env.get(name)
            if isinstance(lv, JSOptFn):
                # resuming a goroutine parked on the channel: scheduled work of another goroutine, no effect on this function's state
                self.oblige(st, 'continuation-defined@%s' % line, z3.Not(lv.undef), src=line)
                for a in args: self.ev(st, a)
                self.assumed.add('continuations taken from a wait queue only schedule other goroutines (no effect on the state the function under contract sees)')
                return UNDEF
            if isinstance(lv, JSFunc) and lv.name.endswith('.zero'):
                return fresh('zero')          # zero value of the element type: opaque
            if name == '$fround':
                v = self.ev(st, args[0])
                if not (isinstance(v, z3.ExprRef) and z3.is_fp(v)): raise Unsupported('$fround outside mode fp')
                return z3.fpToFP(z3.RNE(), z3.fpToFP(z3.RNE(), v, F32), F64)
            if name == '$clone' and len(args) == 2 and 'isclone' in self.spec.pures and 'cloneOf' in self.spec.pures:
                # $clone(src, type) = type.zero() filled by type.copy: a new object holding the value of src.  Element objects
                # are identities here; the contract file's isclone / cloneOf record where a clone came from.
                v = self.ev(st, args[0]); self.ev(st, args[1])
                if not (isinstance(v, z3.ExprRef) and z3.is_int(v)):
                    raise Unsupported('$clone of %r @%s' % (v, line))
                self.assumed.add('$clone(src, type) returns a new object that is a copy of src (types.js copy/zero of the element type are not under contract)')
                c = fresh('clone')
                st.assume(z3.And(self.pure_decl('isclone')(c), self.pure_decl('cloneOf')(c) == v))
                return c
            if name == '$min':
                return self.math(st, 'min', args, line)
            if name == '$imul':
                self.assumed.add('Math.imul(a, b) is the int32 congruent to a*b modulo 2^32 (ECMA-262); the $imul fallback is verified separately')
                return self.math(st, 'imul', args, line)
            if name == '$indexPtr' and len(args) == 3:
                for a in args[:2]: self.ev(st, a)
                return JSObj({}, ctor='Ptr', ref=fresh('obj'))        # a pointer to an element: opaque here
            if name == '$panic':
                raise PanicEx('panic')           # panic(v): unwinds (its argument is not evaluated here)
            if name == '$throwRuntimeError':
                try:
                    msg = self.ev(st, args[0])
                except (Unsupported, AttributeError, TypeError):
                    msg = None              # a message built from values: the throw itself is what matters
                raise PanicEx(msg.lit.decode() if isinstance(msg, StrV) and msg.lit is not None else 'runtime error')
            if name in self.jsvariants and name != self.frame.key.split()[0]:
                return self.apply_js_contract(st, name, [self.ev(st, a) for a in args], line)
            raise Unsupported('call of %s @%s without contract' % (name, line))
        raise Unsupported('call expression @%s' % line)

    def math(self, st, name, args, line):
        if name in ('floor', 'ceil', 'trunc') and args[0]['type'] == 'BinaryExpression' and args[0]['operator'] == '/':
            a, b = self.ev(st, args[0]['left']), self.ev(st, args[0]['right'])
            bc = z3.simplify(b)
            if self.mode != 'bv' and z3.is_int_value(bc) and bc.as_long() > 0:
                # L-div: for integers |a| < 2^53 the rounded double quotient lies strictly between the same integers as a/b
                self.assumed.add('L-div: floor/ceil of a correctly rounded quotient of two integers < 2^53 equals that of the exact quotient')
                d = bc.as_long()
                if name == 'floor': return a / d
                if name == 'ceil': return -((-a) / d)
        if name in ('floor', 'ceil', 'trunc') and args[0]['type'] == 'BinaryExpression' and args[0]['operator'] == '/':
            a, b = self.ev(st, args[0]['left']), self.ev(st, args[0]['right'])
            bc = z3.simplify(b)
            if z3.is_int_value(bc) and bc.as_long() > 0 and (bc.as_long() & (bc.as_long() - 1)) == 0 and isinstance(a, z3.ExprRef):
                # division by a power of two is exact in binary floating point (no rounding short of underflow)
                q = z3.ToReal(a) / bc.as_long() if not z3.is_real(a) else a / bc.as_long()
                if name == 'floor': return z3.ToInt(q)
                if name == 'ceil': return -z3.ToInt(-q)
                return self.trunc_real(q)
        vals = [self.ev(st, a) for a in args]
        if name in ('floor', 'ceil', 'trunc', 'round') and isinstance(vals[0], z3.ExprRef) and z3.is_real(vals[0]):
            x = vals[0]
            if name == 'floor': return z3.ToInt(x)
            if name == 'ceil': return -z3.ToInt(-x)
            if name == 'trunc': return self.trunc_real(x)
            raise Unsupported('Math.round on a non-integer')
        if name in ('floor', 'ceil', 'trunc', 'round'):
            return vals[0]        # integers are fixed points
        if name == 'min': return z3.If(vals[0] <= vals[1], vals[0], vals[1])
        if name == 'max': return z3.If(vals[0] >= vals[1], vals[0], vals[1])
        if name == 'abs': return z3.If(vals[0] >= 0, vals[0], -vals[0])
        if name == 'imul':
            return self.toint32(self.mul(st, vals[0], vals[1], line))
        raise Unsupported('Math.%s' % name)

    def from_char_codes(self, st, vals):
        arr = fresh('fcc.arr', ArrII)
        for i, v in enumerate(vals):
            v16 = self.touint32(v) % 65536
            if self.mode == 'bv': v16 = z3.BV2Int(v16)
            st.assume(z3.Select(arr, i) == v16)
        return StrV(arr, z3.IntVal(0), z3.IntVal(len(vals)))

    # ------------------------------------------------------------------ statements
    def stmt(self, st, s):
        m = getattr(self, 'jst_' + s['type'], None)
        if m is None:
            raise Unsupported('JS statement %s @%s' % (s['type'], self.line(s)))
        return m(st, s)

    def block(self, st, lst):
        for s in lst:
            self.stmt(st, s)

    def jst_BlockStatement(self, st, s):
        self.block(st, s['body'])

    def jst_EmptyStatement(self, st, s):
        pass

    def jst_VariableDeclaration(self, st, s):
        for d in s['declarations']:
            n = d['id']['name']
            if d.get('init'):
                st.env[n] = self.ev(st, d['init'])
            elif n not in st.env:          # `var x;` re-declaring a parameter keeps its value
                st.env[n] = UNDEF

    def jst_ExpressionStatement(self, st, s):
        self.ev(st, s['expression'])

    def jst_IfStatement(self, st, s):
        c = self.truthy(st, self.ev(st, s['test']))
        if self.fork(st, c):
            self.stmt(st, s['consequent'])
        elif s.get('alternate'):
            self.stmt(st, s['alternate'])

    def jst_ReturnStatement(self, st, s):
        raise ReturnEx([self.ev(st, s['argument'])] if s.get('argument') else [])

    def jst_ThrowStatement(self, st, s):
        raise PanicEx('throw@%s' % self.line(s))

    def jst_BreakStatement(self, st, s):
        raise BreakEx(None)

    def jst_ContinueStatement(self, st, s):
        raise ContinueEx(None)

    def jst_SwitchStatement(self, st, s):
        d = self.ev(st, s['discriminant'])
        cases = s['cases']
        start = None
        for i, c in enumerate(cases):
            if c.get('test') is None:
                continue
            if self.fork(st, self.binop_js(st, '===', d, self.ev(st, c['test']), self.line(s))):
                start = i; break
        if start is None:
            for i, c in enumerate(cases):
                if c.get('test') is None: start = i
        if start is None:
            return
        try:
            for c in cases[start:]:          # fall through until a break
                self.block(st, c['consequent'])
        except BreakEx:
            pass

    def jst_WhileStatement(self, st, s):
        self.js_loop(st, s, None, s['test'], None, s['body'])

    def jst_ForStatement(self, st, s):
        if s.get('init'):
            if s['init']['type'] == 'VariableDeclaration': self.stmt(st, s['init'])
            else: self.ev(st, s['init'])
        self.js_loop(st, s, None, s.get('test'), s.get('update'), s['body'])

    def assigned_js(self, n, acc, heapw):
        if isinstance(n, list):
            for x in n: self.assigned_js(x, acc, heapw)
        elif isinstance(n, dict):
            t = n.get('type')
            if t == 'AssignmentExpression' or t == 'UpdateExpression':
                tg = n['left'] if t == 'AssignmentExpression' else n['argument']
                if tg['type'] == 'Identifier': acc.add(tg['name'])
                elif tg['type'] == 'MemberExpression':
                    if tg['computed']: heapw.append(tg['object'])
                    elif tg['object']['type'] == 'Identifier': acc.add(tg['object']['name'])
            if t == 'VariableDeclaration':
                for d in n['declarations']: acc.add(d['id']['name'])
            for k, v in n.items():
                if k != 'loc' and isinstance(v, (dict, list)): self.assigned_js(v, acc, heapw)

    def calls_desc_method(self, n):
        if isinstance(n, list):
            return any(self.calls_desc_method(x) for x in n)
        if isinstance(n, dict):
            if n.get('type') == 'CallExpression' and n['callee'].get('type') == 'MemberExpression' and not n['callee'].get('computed') \
               and n['callee']['property'].get('name') in DESC_FN_FIELDS:
                return True
            return any(self.calls_desc_method(v) for k, v in n.items() if k != 'loc' and isinstance(v, (dict, list)))
        return False

    def js_loop(self, st, s, label, test, update, body):
        key = (s['loc']['start']['line'], s['loc']['start']['column'])
        no = self.frame.loops.get(key)
        spec = self.frame.loop_specs.get(str(no), {})
        if 'unroll' in spec:
            n = int(spec['unroll'][0].text)
            for i in range(n + 1):
                if test is not None:
                    if not self.fork(st, self.truthy(st, self.ev(st, test))):
                        return
                if i == n:
                    self.oblige(st, 'unwind@%s' % key[0], z3.BoolVal(False), src=key[0])
                    raise PathEnd()
                try:
                    try: self.stmt(st, body)
                    except ContinueEx: pass
                except BreakEx:
                    return
                if update is not None: self.ev(st, update)
            return
        if not spec.get('invariant'):
            raise Unsupported('JS loop #%s @%s has no invariant' % (no, key[0]))
        invs = spec['invariant']
        entry = st.entry
        def inv_obl(state, tag):
            env = SpecEnv(state, self.spec_binds(state), entry)
            self.js_loop_hints(state, spec, tag)
            for i, cl in enumerate(invs):
                self.oblige(state, 'inv-%s#%s.%d' % (tag, no, i + 1), self.sev_bool(env, cl.expr), src=key[0])
        inv_obl(st, 'init')
        ck = (no, tuple(self.trace))
        if ck in self.loop_cache:
            exits = self.loop_cache[ck]
        else:
            mod, heapw = set(), []
            self.assigned_js(body, mod, heapw)
            if update is not None: self.assigned_js(update, mod, heapw)
            h = st.clone()
            for name in mod:
                if name in h.env:
                    h.env[name] = self.js_havoc(h, h.env[name], name)
            recw = []
            for on in list(heapw):
                try:
                    if isinstance(self.ev(h.clone(), on), JSRec): recw.append(on); heapw.remove(on)
                except Unsupported:
                    pass
            if recw or self.calls_desc_method(body):
                # writes to value objects and abstract calls: the record heap and the call ghosts are havocked (the invariants
                # say what is known about them)
                h.ghost[('rech',)] = fresh('RECHEAP', HEAP)
                for k in [k for k in h.ghost if isinstance(k, tuple) and k and k[0] == 'callghost']:
                    h.ghost[k] = fresh('CALLG', ArrII)
                for which in ('from', 'by'):
                    h.ghost[('callghost', 'copy', which)] = fresh('CALLG', ArrII)
            if heapw:
                # element writes: the whole array heap is havocked except arrays named in `loop n preserves`
                newh = fresh('JSHEAP', HEAP)
                oldh = self.heap(h)
                written = []
                for on in heapw:
                    try: written.append(self.ev(h.clone(), on))
                    except Unsupported: written = None; break
                if written is not None:
                    k = fresh('k!hp')
                    h.assume(z3.ForAll([k], z3.Implies(z3.And([k != w.ident for w in written]), z3.Select(newh, k) == z3.Select(oldh, k))))
                h.ghost[('jsheap',)] = newh
            henv = SpecEnv(h, self.spec_binds(h), entry)
            for cl in invs:
                h.assume(self.sev_bool(henv, cl.expr))
            self.js_loop_hints(h, spec, 'head')        # hints may rely on the invariant
            var0 = self.sev(henv, spec['decreases'][0].expr) if spec.get('decreases') else None
            def run(state):
                if test is not None:
                    if not self.fork(state, self.truthy(state, self.ev(state, test))):
                        raise BreakEx('$guard')
                try:
                    self.stmt(state, body)
                except ContinueEx:
                    pass
                if update is not None:
                    self.ev(state, update)
                return 'back'
            exits = []
            for (how, state, info) in self.run_paths(h, run):
                if how == 'end':
                    saved = self.trace
                    self.trace = self.trace + ['L%s' % no, len(exits), id(state) % 1000003]
                    inv_obl(state, 'step')
                    if var0 is not None:
                        v1 = self.sev(SpecEnv(state, self.spec_binds(state), entry), spec['decreases'][0].expr)
                        z = self.num(0) if self.mode == 'bv' else 0
                        self.oblige(state, 'variant#%s' % no, z3.And(var0 >= z, v1 < var0), src=key[0])
                    self.trace = saved
                elif how == 'break':
                    exits.append(('fall', state))
                elif how == 'return':
                    exits.append(('return', state, info))
                elif how == 'panic':
                    exits.append(('panic', state, info))
            self.loop_cache[ck] = exits
        if not exits:
            raise PathEnd()
        c = self.choose(len(exits)) if len(exits) > 1 else 0
        ex = exits[c]
        o = ex[1].clone()
        st.env, st.heap, st.ghost, st.pc, st.meta, st.guards = o.env, o.heap, o.ghost, o.pc, o.meta, o.guards
        if ex[0] == 'fall':
            self.js_loop_hints(st, spec, 'exit')
            return
        if ex[0] == 'return': raise ReturnEx(ex[2])
        if ex[0] == 'panic': raise PanicEx(ex[2])

    def js_loop_hints(self, st, spec, where):
        for cl in spec.get('hint', []):
            m = re.match(r'(\w+)\s*:\s*(.*)$', cl.text, re.S)
            if m and m.group(1) == where:
                self.run_hint(st, SpecEnv(st, self.spec_binds(st), st.entry), m.group(2), cl)

    def js_havoc(self, st, old, name):
        if isinstance(old, z3.ExprRef):
            v = fresh('lv.' + name, old.sort())
            return v
        if isinstance(old, MaybeNaN):
            return MaybeNaN(fresh('lv.' + name, old.val.sort()), fresh('lv.nan', B))
        if isinstance(old, StrV):
            v = StrV(fresh('lv.%s.arr' % name, ArrII), z3.IntVal(0), fresh('lv.%s.len' % name))
            k = fresh('k!wf')
            st.assume(z3.And(v.len >= 0, z3.ForAll([k], z3.And(z3.Select(v.arr, k) >= 0, z3.Select(v.arr, k) <= 65535))))
            return v
        if isinstance(old, JSObj):
            return JSObj({k: self.js_havoc(st, v, name + k) for k, v in old.fields.items()}, old.ctor, old.ref)
        if isinstance(old, JSOptFn):
            return JSOptFn(fresh('lv.q.empty', B))
        if isinstance(old, (JSArr, JSUndef, JSFunc, JSQueue)):
            return old
        raise Unsupported('havoc of JS value %r' % (old,))

    # ------------------------------------------------------------------ contracts
    def old_binds(self, env):
        """names inside old(...) denote the JS locals of the entry state (array contents are read from the entry heap); bound
        quantifier variables and `result` keep their current binding"""
        if getattr(env, 'call_site', False):
            b = dict(env.binds_old)          # a callee contract at a call site: parameters as bound before the call
        else:
            b = self.spec_binds(env.old)
        for k, v in env.binds.items():
            if k not in b:
                b[k] = v
        return b

    def spec_binds(self, st):
        """JS locals are visible to contract expressions under their own names"""
        b = {}
        if self.mode == 'bv':
            b['$bvw'] = 64; b['$signed'] = True
        src_env = st.entry.env if st.entry is not None else st.env
        for k, v in src_env.items():
            if isinstance(v, OptNum): b[k + '$undef'] = v.undef
        for k, v in st.env.items():
            b[k] = self.to_spec(st, v)
        return b

    def to_spec(self, st, v, depth=0):
        if depth > 4: return None
        if isinstance(v, MaybeNaN): return v.val
        if isinstance(v, OptNum): return v.val
        if isinstance(v, JSArr):
            s = SliceV([z3.Select(self.heap(st), v.ident)], v.off if v.off is not None else z3.IntVal(0), v.length, v.length, None, z3.BoolVal(False))
            s.ident = v.ident
            s.isfresh = v.ident.get_id() in st.meta.get('fresh_js', set())
            s.plain = v.plain if v.plain is not None else z3.BoolVal(False)
            return s
        if isinstance(v, JSRec):
            r = RecV(v.ref, z3.Select(self.rech(st), v.ref)); return r
        if isinstance(v, JSDesc): return v.ref
        if isinstance(v, JSStrId): return v.id
        if isinstance(v, JSObj):
            return StructV(None, {k: self.to_spec(st, x, depth + 1) for k, x in v.fields.items() if x is not v})
        if isinstance(v, JSTuple):
            return TupleV([self.to_spec(st, x, depth + 1) for x in v.items])
        return v

    def spec_index(self, env, x, i):
        if isinstance(x, RecV):
            return z3.Select(x.row, i)
        return SpecMixin.spec_index(self, env, x, i)

    def spec_sel(self, env, e):
        x = self.sev(env, e[1])
        if isinstance(x, StructV) and e[2] in x.fields:
            return x.fields[e[2]]
        if isinstance(x, z3.ExprRef) and z3.is_int(x) and e[2] in (DESC_REF_FIELDS | DESC_STR_FIELDS | DESC_BOOL_FIELDS | DESC_INT_FIELDS):
            return desc_field(x, e[2])            # a field of a descriptor object: a function of its identity
        if isinstance(x, TupleV) and e[2] in ('_0', '_1', '_2'):
            return x.vals[int(e[2][1])]
        return SpecMixin.spec_sel(self, env, e)

    def make_param(self, st, name, ty):
        ty = ty.strip()
        sort = z3.BitVecSort(64) if self.mode == 'bv' else I
        def rng(v, lo, hi):
            if self.mode == 'bv': st.pc.append(z3.And(v >= z3.BitVecVal(lo, 64), v <= z3.BitVecVal(hi, 64)))
            else: st.pc.append(z3.And(v >= lo, v <= hi))
        if ty in ('num', 'int', 'int32', 'uint32', 'byte', 'nat', 'rune32'):
            v = fresh(name, sort)
            lo, hi = {'num': (-TWO53, TWO53), 'int': (-TWO53, TWO53), 'int32': (-TWO31, TWO31 - 1), 'uint32': (0, TWO32 - 1), 'byte': (0, 255),
                      'nat': (0, TWO53), 'rune32': (-TWO31, TWO31 - 1)}[ty]
            rng(v, lo, hi)
            if self.mode != 'bv': self.know(v, lo, hi)
            return v
        if ty == 'bigcount':
            if self.mode == 'bv': raise Unsupported('bigcount parameters need mode jn')
            v = fresh(name, I); st.pc.append(v >= 64)
            return v
        if ty == 'bool':
            return fresh(name, B)
        if ty == 'real':     # a finite double that need not be an integer (modelled as a real; only exact operations are allowed on it)
            v = fresh(name, z3.RealSort())
            st.pc.append(z3.And(v >= -TWO53 * 2048, v <= TWO53 * 2048))
            return v
        if ty == 'str':      # a Go string: one byte per code unit
            arr = fresh(name + '.arr', ArrII); n = fresh(name + '.len'); k = fresh('k!wf')
            st.pc += [n >= 0, n <= MAXLEN, z3.ForAll([k], z3.And(z3.Select(arr, k) >= 0, z3.Select(arr, k) <= 255))]
            return StrV(arr, z3.IntVal(0), n)
        if ty == 'pair':       # a two-element array of numbers, e.g. [rune, width]
            return JSTuple([self.make_param(st, name + '._0', 'num'), self.make_param(st, name + '._1', 'num')])
        if ty in ('i64', 'u64'):
            h, l = fresh(name + '.high', sort), fresh(name + '.low', sort)
            if ty == 'i64': rng(h, -TWO31, TWO31 - 1)
            else: rng(h, 0, TWO32 - 1)
            rng(l, 0, TWO32 - 1)
            if self.mode != 'bv':
                self.know(h, -TWO31 if ty == 'i64' else 0, TWO31 - 1 if ty == 'i64' else TWO32 - 1); self.know(l, 0, TWO32 - 1)
            return JSObj({'$high': h, '$low': l}, ctor='Int64' if ty == 'i64' else 'Uint64', ref=fresh('obj'))
        if ty.startswith('opt '):
            v = self.make_param(st, name, ty[4:])
            return OptNum(v, fresh(name + '.undef', B))
        if ty == 'slice':
            arr = self.make_param(st, name + '.$array', 'arr')
            off, ln, cap = [self.make_param(st, name + f, 'nat') for f in ('.$offset', '.$length', '.$capacity')]
            nil = fresh(name + '.nil', B)
            st.pc += [ln <= cap, off + cap <= arr.length, z3.Implies(nil, z3.And(ln == 0, cap == 0))] if self.mode != 'bv' else []
            return JSObj({'$array': arr, '$offset': off, '$length': ln, '$capacity': cap, '$nil': nil, '$elemtype': self.make_param(st, name + '.elem', 'elemtype')}, ctor='Slice', ref=fresh('obj'))
        if ty == 'elemtype':
            return JSObj({'kind': self.make_param(st, name + '.kind', 'nat')}, ctor='Type', ref=fresh('obj'))
        if ty == 'gomap':          # a Go map: the nil map is `false`, otherwise a Map object (contents not modelled)
            return JSObj({'$nil': fresh(name + '.nil', B)}, ctor='GoMap', ref=fresh('obj'))
        if ty == 'iface':          # an interface value: nil, or a boxed value whose constructor is a type descriptor
            return JSObj({'$nil': fresh(name + '.nil', B), 'constructor': self.make_param(st, name + '.type', 'desc'), '$val': fresh(name + '.val')}, ctor='Box', ref=fresh('obj'))
        if ty == 'chan':
            return JSObj({'$closed': fresh(name + '.closed', B), '$nil': fresh(name + '.nil', B), '$sendQueue': JSQueue('send'), '$recvQueue': JSQueue('recv'),
                          '$elem': JSObj({}, ctor='Type', ref=fresh('obj'))}, ctor='Chan', ref=fresh('obj'))
        if ty == 'rec':
            r = fresh(name + '.ref'); st.pc.append(r > 0)
            return JSRec(r)
        if ty == 'desc':
            r = fresh(name + '.ref'); st.pc.append(r > 0)
            return JSDesc(r)
        if ty == 'descarr':
            a = self.make_param(st, name, 'arr'); a.kind = 'desc'; a.plain = z3.BoolVal(True)
            return a
        if ty.startswith('flags '):      # a mutable record of boolean fields: `flags comparable`
            return JSObj({f: fresh(name + '.' + f, B) for f in ty.split()[1:]}, ref=fresh('obj'))
        if ty == 'slicetype':
            return JSObj({'$isArray': fresh(name + '.isArray', B), 'elem': JSObj({}, ctor='Type', ref=fresh('obj'))}, ctor='SliceType', ref=fresh('obj'))
        if ty.startswith('arrptr'):     # pointer to an array of static length: the array itself, or the nil pointer object
            a = self.make_param(st, name, 'arr')
            st.pc.append(a.length == int(ty[6:]))
            a.isnil = fresh(name + '.isnil', B)
            return a
        if ty in ('arr', 'u8arr'):
            ident = fresh(name + '.id'); n = fresh(name + '.length')
            st.pc += [ident > 0, n >= 0, n <= MAXLEN]
            st.meta['arrids'] = st.meta.get('arrids', []) + [ident]        # later allocations are distinct from every existing array
            return JSArr(ident, n, 'u8' if ty == 'u8arr' else 'num', plain=(z3.BoolVal(False) if ty == 'u8arr' else fresh(name + '.plain', B)))
        raise Unsupported('JS parameter type %s' % ty)

    def find_func(self, name, file=None):
        region = None
        if ':' in name:
            name, region = name.split(':', 1)
        for f, d in self.js.items():
            if file and f != file: continue
            if name in d['funcs']:
                fn = d['funcs'][name]
                if region:
                    fn = self.find_region(fn, region)
                    if fn is None:
                        return None, None
                return fn, f
        return None, None

    def find_region(self, fn, label):
        """the function expression assigned inside `case <label>:` of a switch in fn (cut from the ESTree at check time);
        `<label>:<member>` is the function assigned to `<anything>.<member>` inside that case, `<label>:forEach<n>` the n-th
        function passed to a `.forEach(` call inside it (source order)"""
        sub = None
        if ':' in label:
            label, sub = label.split(':', 1)
        if sub is not None:
            cases = []
            def wcase(n):
                if isinstance(n, list):
                    for x in n: wcase(x)
                elif isinstance(n, dict):
                    if n.get('type') == 'SwitchCase' and n.get('test') and n['test'].get('type') == 'Identifier' and n['test']['name'] == label and n.get('consequent'):
                        cases.append(n['consequent'])
                    for k, v in n.items():
                        if k != 'loc' and isinstance(v, (dict, list)): wcase(v)
            wcase(fn['body'])
            if not cases: return None
            hits = []
            m = re.match(r'forEach(\d+)$', sub)
            def wsub(n):
                if isinstance(n, list):
                    for x in n: wsub(x)
                elif isinstance(n, dict):
                    fe = ('FunctionExpression', 'ArrowFunctionExpression')
                    if m:
                        if n.get('type') == 'CallExpression' and n['callee'].get('type') == 'MemberExpression' and not n['callee'].get('computed') \
                           and n['callee']['property'].get('name') == 'forEach' and n['arguments'] and n['arguments'][0].get('type') in fe:
                            hits.append(n['arguments'][0])
                    elif n.get('type') == 'AssignmentExpression' and n['left'].get('type') == 'MemberExpression' and not n['left'].get('computed') \
                         and n['left']['property'].get('name') == sub and n['right'].get('type') in fe:
                        hits.append(n['right'])
                    for k, v in n.items():
                        if k != 'loc' and isinstance(v, (dict, list)): wsub(v)
            wsub(cases[0])
            idx = int(m.group(1)) - 1 if m else 0
            return hits[idx] if idx < len(hits) else None
        found = []
        def fexpr(n):
            if isinstance(n, list):
                for x in n:
                    r = fexpr(x)
                    if r: return r
            elif isinstance(n, dict):
                if n.get('type') in ('FunctionExpression', 'ArrowFunctionExpression'):
                    return n
                for k, v in n.items():
                    if k != 'loc' and isinstance(v, (dict, list)):
                        r = fexpr(v)
                        if r: return r
            return None
        def walk(n):
            if isinstance(n, list):
                for x in n: walk(x)
            elif isinstance(n, dict):
                if n.get('type') == 'SwitchCase' and n.get('test') and n['test'].get('type') == 'Identifier' and n['test']['name'] == label and n.get('consequent'):
                    r = fexpr(n['consequent'])
                    if r: found.append(r)
                for k, v in n.items():
                    if k != 'loc' and isinstance(v, (dict, list)): walk(v)
        walk(fn['body'])
        return found[0] if found else None

    def js_ThisExpression(self, st, e):
        if 'this' not in st.env:
            st.env['this'] = JSObj({}, ref=fresh('this'))
        return st.env['this']

    def number_js_loops(self, fn):
        loops, cnt = {}, [0]
        def walk(n):
            if isinstance(n, list):
                for x in n: walk(x)
            elif isinstance(n, dict):
                if n.get('type') in ('WhileStatement', 'ForStatement', 'DoWhileStatement', 'ForInStatement'):
                    cnt[0] += 1
                    loops[(n['loc']['start']['line'], n['loc']['start']['column'])] = cnt[0]
                for k, v in n.items():
                    if k != 'loc' and isinstance(v, (dict, list)): walk(v)
        walk(fn['body'])
        return loops

    def verify_js(self, c):
        if c.get('trusted'):
            self.assumed.add('trusted contract js %s: %s' % (c.key, c.get('trusted')[0].text.strip()))
            fr = Frame(c.key, None, c); fr.n_paths = 0
            return fr
        parts = c.key.split()
        file, name = (parts[0], parts[1]) if len(parts) >= 2 else (None, parts[0])
        fn, f = self.find_func(name, file)
        if fn is None:
            raise Unsupported('JS function %s not found (contract does not bind)' % c.key)
        reset_fresh()
        self.known_ranges = {}
        self.u32view = {}
        self.dmcache = {}
        self.tzinfo = {}
        self._keep = []
        fr = Frame(' '.join(parts[1:]) if len(parts) >= 2 else name, fn, c)
        fr.loops = self.number_js_loops(fn)
        self.frame = fr
        self.loop_cache = {}
        self.mode = c.get('mode')[0].text.strip() if c.get('mode') else 'jn'
        self.prune = bool(c.get('prune'))
        st = State()
        ptypes = {}
        for cl in c.get('param'):
            for part in cl.text.split(','):
                n, t = part.split(':')
                ptypes[n.strip()] = t.strip()
        defaults = []
        for p in fn['params']:
            if p['type'] == 'AssignmentPattern':
                pn = p['left']['name']; defaults.append((pn, p['right']))
            else:
                pn = p['name']
            if pn not in ptypes:
                raise Unsupported('contract gives no type for parameter %s' % pn)
            st.env[pn] = self.make_param(st, pn, ptypes[pn])
        fr.defaults = defaults
        for cl in c.get('captured'):          # free variables of a nested function: symbolic like parameters
            for part in cl.text.split(','):
                n, t = part.split(':')
                ptypes[n.strip()] = t.strip()
                st.env[n.strip()] = self.make_param(st, n.strip(), t.strip())
        for cl in c.get('ghost'):
            self.ghost_assign(st, SpecEnv(st, self.spec_binds(st), None), cl)
        entry = st.clone(); st.entry = entry; entry.entry = entry
        try:
            from .jsreplay import JSReplayer
            fr.replayer = JSReplayer(self, name, c, fn, entry, ptypes)
        except Exception:
            fr.replayer = None
        env = SpecEnv(st, self.spec_binds(st), entry)
        for cl in c.get('requires'):
            st.pc.append(self.sev_bool(env, cl.expr))
        body = fn['body']
        def run(state):
            for (pn, dexpr) in fr.defaults:          # default parameter values: used when the argument is undefined
                v = state.env[pn]
                if isinstance(v, OptNum):
                    if self.fork(state, v.undef):
                        state.env[pn] = self.ev(state, dexpr)
                    else:
                        state.env[pn] = v.val
            try:
                if body['type'] == 'BlockStatement':
                    self.block(state, body['body'])
                    return None
                raise ReturnEx([self.ev(state, body)])
            except Unsupported as ex:
                if not c.get('abstract_rest'):
                    raise
                # `abstract_rest`: a path that reaches a statement outside J0 ends there; what follows is not modelled.  Only
                # one-directional clauses (`throws_when`) are checked on such a path, and the abstraction is listed.
                self.assumed.add('js %s: the rest of a path is abstracted where it leaves the JavaScript subset (%s)' % (c.key, str(ex)[:120]))
                raise ReturnEx(['$abstract'])
        exits = self.run_paths(st, run)
        n = 0
        for (how, state, info) in exits:
            self.trace = ['exit', n]; n += 1
            if how == 'return' and len(info) == 1 and isinstance(info[0], str) and info[0] == '$abstract':
                eenv = SpecEnv(entry, self.spec_binds(entry), entry)
                for i, cl in enumerate(c.get('throws_when')):
                    self.oblige(state, 'abstracted-path-only-if-not-throws_when#%d' % (i + 1), z3.Not(self.sev_bool(eenv, cl.expr)), src=cl.line)
                continue
            if how in ('end', 'return'):
                vals = info if how == 'return' else []
                self.check_js_return(state, entry, c, vals)
            elif how == 'panic':
                self.check_js_throw(state, entry, c, info)
        self.trace = []
        fr.n_paths = len(exits)
        return fr

    def check_js_return(self, state, entry, c, vals):
        binds = self.spec_binds(state)
        if vals:
            binds['result'] = self.to_spec(state, vals[0])
        env = SpecEnv(state, binds, entry)
        env.binds_old = self.spec_binds(entry)
        for cl in c.get('hint'):
            m = re.match(r'(\w+)\s*:\s*(.*)$', cl.text, re.S)
            if m and m.group(1) == 'return':
                self.run_hint(state, env, m.group(2), cl)
        for i, cl in enumerate(c.get('ensures')):
            self.oblige(state, 'post#%d' % (i + 1), self.sev_bool(env, cl.expr), src=cl.line)
        tcs = c.get('throws_if')
        if tcs:
            eenv = SpecEnv(entry, self.spec_binds(entry), entry)
            self.oblige(state, 'returns-only-if-not-throws_if', z3.Not(z3.Or([self.sev_bool(eenv, cl.expr) for cl in tcs])))
        for i, cl in enumerate(c.get('throws_when')):       # one direction: when the condition holds on entry the function does not return
            eenv = SpecEnv(entry, self.spec_binds(entry), entry)
            self.oblige(state, 'returns-only-if-not-throws_when#%d' % (i + 1), z3.Not(self.sev_bool(eenv, cl.expr)), src=cl.line)

    def check_js_throw(self, state, entry, c, info):
        tcs = c.get('throws_if')
        eenv = SpecEnv(entry, self.spec_binds(entry), entry)
        if tcs:
            self.oblige(state, 'throw-allowed(%s)' % info, z3.Or([self.sev_bool(eenv, cl.expr) for cl in tcs]))
        elif c.get('throws_when'):
            pass          # (`throws_when` is one-directional: it says nothing about other throws)
        else:
            self.oblige(state, 'no-throw(%s)' % info, z3.BoolVal(False))

    def contract_ptypes(self, c):
        pt = {}
        for cl in c.get('param'):
            for part in cl.text.split(','):
                n, t = part.split(':')
                pt[n.strip()] = t.strip()
        return pt

    def arg_matches(self, v, ty):
        if ty == 'i64': return isinstance(v, JSObj) and v.ctor == 'Int64'
        if ty == 'u64': return isinstance(v, JSObj) and v.ctor == 'Uint64'
        if ty in ('num', 'int', 'int32', 'uint32', 'byte', 'nat', 'rune32', 'bigcount'): return isinstance(v, z3.ExprRef) and not z3.is_bool(v)
        if ty == 'bool': return isinstance(v, z3.ExprRef) and z3.is_bool(v)
        if ty == 'str': return isinstance(v, StrV)
        return True

    def apply_js_contract(self, st, name, argv, line):
        """modular call of a prelude function: the variant whose parameter kinds match the arguments is used"""
        chosen = None
        for c in self.jsvariants[name]:
            fn, f = self.find_func(c.key.split()[1] if len(c.key.split()) >= 2 else name)
            pt = self.contract_ptypes(c)
            pname = lambda p: p['left']['name'] if p['type'] == 'AssignmentPattern' else p['name']
            if fn and len(fn['params']) >= len(argv) and all(self.arg_matches(v, pt.get(pname(p), '?')) for p, v in zip(fn['params'], argv)):
                cm = c.get('mode')[0].text.strip() if c.get('mode') else 'jn'
                if cm == self.mode:
                    chosen = (c, fn, pt); break
        if chosen is None:
            raise Unsupported('no contract variant of %s matches the arguments / mode %s @%s' % (name, self.mode, line))
        c, fn, pt = chosen
        self.used_contracts = getattr(self, 'used_contracts', set()) | {c.key}
        binds = {}
        if self.mode == 'bv':
            binds['$bvw'] = 64; binds['$signed'] = True
        pname = lambda p: p['left']['name'] if p['type'] == 'AssignmentPattern' else p['name']
        for i, p in enumerate(fn['params']):
            ty = pt.get(pname(p), '')
            if ty.startswith('opt '):
                binds[pname(p) + '$undef'] = z3.BoolVal(i >= len(argv))
                if i >= len(argv):
                    binds[pname(p)] = self.num(0)
        for p, v in zip(fn['params'], argv):
            binds[pname(p)] = self.to_spec(st, v)
            # the callee's parameter type is a precondition on the argument
            ty = pt.get(pname(p), '')
            if ty.startswith('opt '): ty = ty[4:]
            rng = {'int32': (-TWO31, TWO31 - 1), 'uint32': (0, TWO32 - 1), 'byte': (0, 255), 'nat': (0, TWO53), 'num': (-TWO53, TWO53), 'int': (-TWO53, TWO53)}.get(ty)
            if rng and isinstance(v, z3.ExprRef):
                lo, hi = (self.num(rng[0]), self.num(rng[1]))
                self.oblige(st, 'pre-type@call %s(%s)@%s' % (name, pname(p), line), z3.And(v >= lo, v <= hi), src=line)
            if ty == 'bigcount' and isinstance(v, z3.ExprRef):      # a shift count of at least 64, of any magnitude (mode jn)
                self.oblige(st, 'pre-type@call %s(%s)@%s' % (name, pname(p), line), v >= self.num(64), src=line)
        old = st.clone()
        self._pre_binds = dict(binds)
        envp = SpecEnv(st, binds, old)
        for ci, cl in enumerate(c.get('requires')):
            self.oblige(st, 'pre%s@call %s@%s' % ('' if ci == 0 else '#%d' % (ci + 1), name, line), self.sev_bool(envp, cl.expr), src=line)
        tcs = [self.sev_bool(envp, cl.expr) for cl in c.get('throws_if')]
        if tcs and self.fork(st, z3.Or(tcs) if len(tcs) > 1 else tcs[0]):
            raise PanicEx(c.get('throws_msg')[0].text.strip() if c.get('throws_msg') else 'callee %s throws' % name)
        for cl in c.get('assigns'):
            for target in cl.text.split(','):
                m = re.match(r'\s*arr\((\w+)\)\s*$', target)
                if not m: continue
                pi = [pname(p) for p in fn['params']].index(m.group(1))
                a = argv[pi]
                if isinstance(a, JSArr):
                    h = self.heap(st)
                    st.ghost[('jsheap',)] = z3.Store(h, a.ident, fresh('hv.arr', ArrII))
        # re-bind array arguments to the post-call heap
        for p, v in zip(fn['params'], argv):
            binds[pname(p)] = self.to_spec(st, v)
        rt = c.get('returns')[0].text.strip() if c.get('returns') else None
        if rt is None:
            first = pt.get(pname(fn['params'][0])) if fn['params'] else None
            rt = first if first in ('i64', 'u64') else 'num'
        res = UNDEF if rt == 'undef' else self.make_param(st, 'r.' + name.strip('$'), rt)
        rb = dict(binds)
        if res is not UNDEF: rb['result'] = self.to_spec(st, res)
        envq = SpecEnv(st, rb, old)
        envq.binds_old = dict(self._pre_binds)
        envq.call_site = True
        envq.assume_mode = True
        for cl in c.get('ensures'):
            try:
                st.assume(self.sev_bool(envq, cl.expr))
            except Unsupported as ex:
                if 'unknown name' in str(ex):
                    continue          # clause about the callee's locals: not visible to callers
                raise
        return res

def run_jsdump(files):
    root = os.path.dirname(os.path.dirname(os.path.dirname(os.path.abspath(__file__))))
    p = subprocess.run(['node', '--expose-internals', os.path.join(root, 'tools', 'jsdump.js')] + files, stdout=subprocess.PIPE, stderr=subprocess.PIPE, text=True)
    if p.returncode != 0:
        raise RuntimeError('jsdump failed: ' + p.stderr[-2000:])
    return json.loads(p.stdout)
