# Replay files, known findings, and replay of solver counterexamples on the real code.
import os, json, re, time
ROOT = os.path.dirname(os.path.dirname(os.path.dirname(os.path.abspath(__file__))))

def load_known(pid):
    """known_findings.txt lines:  `finding: property=<id> obligation=<regex> :: <description>`  and `fixed: ...` (suppress nothing)."""
    out = []
    p = os.path.join(ROOT, 'known_findings.txt')
    if not os.path.exists(p):
        return out
    for line in open(p):
        line = line.strip()
        m = re.match(r'finding:\s+property=(\S+)\s+obligation=(\S+)\s+::\s+(.*)$', line)
        if m and m.group(1) == pid:
            out.append((re.compile(m.group(2)), m.group(3)))
    return out

def match_known(known, ob):
    for rx, desc in known:
        if rx.fullmatch(ob.name):
            return '%s [%s]' % (desc, ob.name)
    return None

def guarded(rp, ob, limit=150):
    """a replay (model extraction in-process, go test / node outside) runs in a forked child with a wall-clock limit: a
    solver call that does not honour its timeout must not hang the check"""
    import multiprocessing
    ctx = multiprocessing.get_context('fork')
    rd, wr = ctx.Pipe(duplex=False)
    def child():
        try:
            r = rp(ob, ob.model)
        except Exception as e:
            r = {'violates': False, 'note': 'replay raised %r' % (e,)}
        try:
            wr.send(json.loads(json.dumps(r, default=str)))
        except Exception:
            pass
        os._exit(0)
    pr = ctx.Process(target=child)
    pr.start()
    res = None
    if rd.poll(limit):
        try:
            res = rd.recv()
        except EOFError:
            res = None
    if pr.is_alive():
        pr.kill()
    pr.join(5)
    if res is None:
        return {'violates': False, 'note': 'replay did not finish within %d s' % limit}
    return res

def make_replay(rep, ob, concrete=None):
    d = os.path.join(os.environ.get('VERIF_OUT', ROOT), 'replays', rep.pid)
    os.makedirs(d, exist_ok=True)
    fn = os.path.join(d, re.sub(r'[^A-Za-z0-9_.-]', '_', ob.name)[:120] + '.json')
    tag = None
    data = {'property': rep.pid, 'obligation': ob.name, 'function': ob.func, 'kind': ob.kind, 'answer': ob.answer, 'solver': ob.solver,
            'solver_output': (ob.output or '')[:20000], 'source_ref': ob.src, 'model': ob.model, 'meta': {k: v for k, v in ob.meta.items() if isinstance(v, (str, int, float, list, dict))}}
    confirmed = None
    rp = ob.meta.get('replayer')
    if (ob.answer == 'sat' or (ob.answer == 'unknown' and ob.meta.get('replay_unknown'))) and rp is not None:
        try:
            _t0 = time.time()
            confirmed = guarded(rp, ob)
            data['replay_seconds'] = round(time.time() - _t0, 1)
        except Exception as e:
            data['replay_error'] = repr(e)
    if confirmed and confirmed.get('violates'):
        data['replayed'] = confirmed
        print('  replayed on the real code: %s' % '; '.join(confirmed.get('violated_clauses', []))[:300])
    else:
        if confirmed is not None:
            data['replayed'] = confirmed
        tag = 'no-failing-input-found'
        data['note'] = 'the obligation is discharged on the unchanged tree and is not discharged on this tree; no concrete failing input was confirmed on the real code'
    with open(fn, 'w') as f:
        json.dump(data, f, indent=1, default=str)
    return fn, tag

def run_replay_file(path):
    d = json.load(open(path))
    print(json.dumps({k: d[k] for k in d if k != 'solver_output'}, indent=1)[:4000])
    return 0
