# C17: every source of order nondeterminism in the compiler is enumerated on every run (range over a map, iteration
# primitives over maps, go / select statements, clock and randomness) and each site must be discharged by a proof rule
# whose side conditions are checked on the current AST.  A site no rule discharges is a failed obligation.
#
# Rules (each with its soundness argument):
#  K-KEYED    every effect of the body is a write to M[k] / delete(M, k) for the loop key k (values computed from k, v and
#             loop-invariant data): iterations for distinct keys touch disjoint locations, hence commute.
#  K-SETINS   every effect is X[e] = c for a constant c: writes of the same constant commute and are idempotent.
#  K-SORTED   the only data leaving the loop is a local slice that is passed to sort.Strings / sort.Slice /
#             SortedSourcesSlice before any other use: the sorted result of a multiset under a total order is unique.
#  K-EXISTS   the body is `if c(k, v) { return C }` and the loop is followed by `return C'`: the result is C iff some entry
#             satisfies c, independent of the order.
#  K-MONOTONE the body only marks (monotone, idempotent operations), deletes the current entry and clears a `done` flag, inside a
#             repeat-until-stable loop: the result is the least fixpoint, which is unique.
#  K-DEBUG    String() methods used for diagnostics only.
#  K-ITER     an iteration primitive over a map (InstanceMap.Iterate): the obligation is transferred to every call site.
import os, json, re
import z3
from .smt import Obligation

PURE_CALLS = {'len', 'cap', 'append', 'string', 'filepath.Base', 'path/filepath.Base', 'strconv.Unquote', 'go/ast.NewIdent'}
ORDERFREE_CALL_SUFFIXES = ('.assignedObjectName', '.Import', 'build.normalizedDir', '.exhausted', '.IsBlocking', '.FuncLitInfo', 'astutil.HasDirectivePrefix')
MONOTONE_CALL_SUFFIXES = ('.markBlocking', '.Delete')
SORT_CALLS = ('sort.Strings', 'sort.Slice', 'sort.SliceStable', 'compiler/sources.SortedSourcesSlice', 'sort.Sort')

def callee_of(call):
    f = call.get('Fun', {})
    while f.get('_') == 'ParenExpr': f = f['X']
    if f.get('_') == 'Ident':
        o = f.get('obj') or {}
        return o.get('full') or f.get('Name')
    if f.get('_') == 'SelectorExpr':
        if f.get('sel'): return f['sel'].get('full') or f['Sel']['Name']
        o = f['Sel'].get('obj') or {}
        return o.get('full') or f['Sel']['Name']
    return None

def idents(n, acc=None):
    acc = set() if acc is None else acc
    if isinstance(n, list):
        for x in n: idents(x, acc)
    elif isinstance(n, dict):
        if n.get('_') == 'Ident' and isinstance(n.get('obj'), dict) and n['obj'].get('kind') == 'Var':
            acc.add(n['obj']['id'])
        for k, v in n.items():
            if k not in ('obj', 'sel', 'implicit') and isinstance(v, (dict, list)): idents(v, acc)
    return acc

def calls_in(n, acc=None):
    acc = [] if acc is None else acc
    if isinstance(n, list):
        for x in n: calls_in(x, acc)
    elif isinstance(n, dict):
        if n.get('_') == 'CallExpr': acc.append(n)
        for k, v in n.items():
            if k not in ('obj', 'sel', 'implicit') and isinstance(v, (dict, list)): calls_in(v, acc)
    return acc

def is_conversion(c):
    return bool(c.get('Fun', {}).get('isType'))

def expr_orderfree(e):
    """expression whose value does not depend on iteration order: no calls other than pure / order-free ones"""
    for c in calls_in(e):
        if is_conversion(c): continue
        k = callee_of(c) or '?'
        if k in PURE_CALLS or k.split('/')[-1] in PURE_CALLS: continue
        if any(k.endswith(s) for s in ORDERFREE_CALL_SUFFIXES): continue
        return False
    return True

def var_id(e):
    while e.get('_') == 'ParenExpr': e = e['X']
    if e.get('_') == 'Ident' and isinstance(e.get('obj'), dict): return e['obj'].get('id')
    return None

def same_expr(a, b):
    def strip(n):
        if isinstance(n, list): return [strip(x) for x in n]
        if isinstance(n, dict): return {k: strip(v) for k, v in n.items() if k not in ('line', 'col', 't', 'sel', 'implicit')}
        return n
    return json.dumps(strip(a), sort_keys=True) == json.dumps(strip(b), sort_keys=True)

def find_node(fn, kind, line, col):
    out = []
    def walk(n):
        if isinstance(n, list):
            for x in n: walk(x)
        elif isinstance(n, dict):
            if n.get('_') == kind and n.get('line') == line and n.get('col') == col:
                out.append(n)
            for k, v in n.items():
                if k not in ('obj', 'sel', 'implicit') and isinstance(v, (dict, list)): walk(v)
    walk(fn)
    return out[0] if out else None

class SiteChecker:
    def __init__(self, node, fn_decl, lit=None):
        if lit is None and node.get('_') == 'RangeStmt':
            # object ids are per dump: use the node of the function's own dump
            node = find_node(fn_decl, 'RangeStmt', node.get('line'), node.get('col')) or node
        self.node, self.fn = node, fn_decl
        self.key = node.get('Key') if node.get('_') == 'RangeStmt' else None
        self.val = node.get('Value') if node.get('_') == 'RangeStmt' else None
        self.body = (node['Body'].get('List') or []) if node.get('_') == 'RangeStmt' else (lit['Body'].get('List') or [])
        if lit is not None:
            ps = []
            for fld in (lit['Type'].get('Params') or {}).get('List', []) or []:
                ps += fld.get('Names') or []
            self.key = ps[0] if ps else None
            self.val = ps[1] if len(ps) > 1 else None
        self.keyid = var_id(self.key) if self.key else None
        self.ranged = node.get('X')

    def is_key(self, e):
        return self.keyid is not None and var_id(e) == self.keyid

    # ---- K-KEYED / K-SETINS
    def keyed_stmt(self, s, allow_const_only=False):
        k = s.get('_')
        if k == 'AssignStmt' and len(s['Lhs']) == 1 and s['Tok'] in ('=',):
            l, r = s['Lhs'][0], s['Rhs'][0]
            if l.get('_') == 'IndexExpr':
                if self.is_key(l['Index']) and not allow_const_only:
                    # M[k] = e  or  M[k] = append(M[k], ...)
                    return expr_orderfree(r)
                if r.get('cv') is not None or r.get('isNil') or (r.get('_') == 'Ident' and r.get('Name') in ('nil', 'true', 'false')):
                    return expr_orderfree(l['Index'])         # X[e] = constant
            return False
        if k == 'ExprStmt' and s['X'].get('_') == 'CallExpr' and callee_of(s['X']) == 'delete':
            return self.is_key(s['X']['Args'][1])
        if k == 'RangeStmt':
            return expr_orderfree(s['X']) and all(self.keyed_stmt(x, allow_const_only) for x in s['Body'].get('List') or [])
        if k == 'IfStmt':
            return expr_orderfree(s['Cond']) and s.get('Init') is None and all(self.keyed_stmt(x, allow_const_only) for x in s['Body'].get('List') or []) and not s.get('Else')
        if k == 'AssignStmt' and s['Tok'] == ':=':
            return all(expr_orderfree(r) for r in s['Rhs'])     # block-local temporaries
        return False

    def rule_keyed(self):
        return bool(self.body) and all(self.keyed_stmt(s) for s in self.body)

    def rule_setins(self):
        return bool(self.body) and all(self.keyed_stmt(s, allow_const_only=True) for s in self.body)

    # ---- K-SORTED
    def rule_sorted(self):
        slices = set()
        counters = set()
        def ok(s):
            k = s.get('_')
            if k == 'AssignStmt' and s['Tok'] == '=' and len(s['Lhs']) == 1:
                l, r = s['Lhs'][0], s['Rhs'][0]
                lid = var_id(l)
                if lid is not None and r.get('_') == 'CallExpr' and callee_of(r) == 'append' and var_id(r['Args'][0]) == lid:
                    slices.add(lid)
                    return all(expr_orderfree(a) for a in r['Args'][1:])
                if l.get('_') == 'IndexExpr' and var_id(l['X']) is not None and var_id(l['Index']) is not None:
                    slices.add(var_id(l['X'])); counters.add(var_id(l['Index']))      # S[i] = k with a running counter
                    return expr_orderfree(r)
                if lid is not None and (lid == self.keyid or lid == var_id(self.val or {})):
                    return expr_orderfree(r)          # re-binding the loop variable itself
                return False
            if k == 'AssignStmt' and s['Tok'] == ':=':
                return all(expr_orderfree(r) for r in s['Rhs'])
            if k == 'IncDecStmt':
                i = var_id(s['X'])
                if i is not None: counters.add(i); return True
                return False
            if k == 'IfStmt':
                body_ok = all(ok(x) or x.get('_') == 'BranchStmt' or (x.get('_') == 'ExprStmt' and x['X'].get('_') == 'CallExpr' and callee_of(x['X']) == 'panic')
                              for x in s['Body'].get('List') or [])
                return expr_orderfree(s['Cond']) and (s.get('Init') is None or ok(s['Init'])) and body_ok and not s.get('Else')
            if k == 'BranchStmt':
                return s['Tok'] == 'continue'
            return False
        if not self.body or not all(ok(s) for s in self.body) or not slices:
            return False
        # every collected slice must reach a sort before any other use
        return all(self.sorted_before_use(sid) for sid in slices)

    def enclosing_list(self):
        """the statement list containing the site and the site's index in it"""
        found = []
        target = (self.node.get('line'), self.node.get('col'))
        def walk(lst):
            for i, s in enumerate(lst or []):
                if isinstance(s, dict) and s.get('_') == 'RangeStmt' and (s.get('line'), s.get('col')) == target:
                    found.append((lst, i)); return
                for k, v in (s.items() if isinstance(s, dict) else []):
                    if k in ('obj', 'sel', 'implicit'): continue
                    if isinstance(v, dict): walk_node(v)
                    elif isinstance(v, list): walk_any(v)
        def walk_node(n):
            if n.get('_') == 'BlockStmt': walk(n.get('List'))
            elif n.get('_') == 'CaseClause' or n.get('_') == 'CommClause': walk(n.get('Body'))
            else:
                for k, v in n.items():
                    if k in ('obj', 'sel', 'implicit'): continue
                    if isinstance(v, dict): walk_node(v)
                    elif isinstance(v, list): walk_any(v)
        def walk_any(lst):
            for x in lst:
                if isinstance(x, dict): walk_node(x)
        walk_node(self.fn['Body'])
        return found[0] if found else (None, None)

    def sorted_before_use(self, sid):
        lst, i = self.enclosing_list()
        if lst is None: return False
        for s in lst[i + 1:]:
            if sid not in idents(s): continue
            if s.get('_') == 'ExprStmt' and s['X'].get('_') == 'CallExpr':
                k = callee_of(s['X']) or ''
                if any(k == c or k.endswith('/' + c) or k.endswith(c) for c in SORT_CALLS) and var_id(s['X']['Args'][0]) == sid:
                    return True
            return False
        return False

    # ---- K-EXISTS
    def rule_exists(self):
        if len(self.body) != 1 or self.body[0].get('_') != 'IfStmt': return False
        s = self.body[0]
        b = s['Body'].get('List') or []
        if s.get('Else') or len(b) != 1 or b[0].get('_') != 'ReturnStmt': return False
        if not expr_orderfree(s['Cond']): return False
        if not all(r.get('cv') is not None or r.get('Name') in ('true', 'false', 'nil') for r in b[0].get('Results') or []): return False
        lst, i = self.enclosing_list()
        if lst is None or i + 1 >= len(lst): return False
        nxt = lst[i + 1]
        return nxt.get('_') == 'ReturnStmt' and all(r.get('cv') is not None or r.get('Name') in ('true', 'false', 'nil') for r in nxt.get('Results') or [])

    # ---- K-MONOTONE
    def rule_monotone(self):
        def eff(s):
            k = s.get('_')
            if k == 'ExprStmt' and s['X'].get('_') == 'CallExpr':
                c = callee_of(s['X']) or ''
                if c == 'delete': return self.is_key(s['X']['Args'][1])
                return any(c.endswith(x) for x in MONOTONE_CALL_SUFFIXES)
            if k == 'AssignStmt' and s['Tok'] == '=' and len(s['Lhs']) == 1 and var_id(s['Lhs'][0]) is not None:
                r = s['Rhs'][0]
                return r.get('Name') in ('true', 'false')
            if k == 'RangeStmt':
                return all(eff(x) for x in s['Body'].get('List') or [])
            return False
        if len(self.body) != 1 or self.body[0].get('_') != 'IfStmt': return False
        s = self.body[0]
        return expr_orderfree(s['Cond']) and not s.get('Else') and all(eff(x) for x in s['Body'].get('List') or [])

    # ---- K-OWNED (needs a site claim: it assumes distinct map values)
    def rule_owned(self):
        """every effect is a field write on an object obtained as X[v] for the loop value v, or delete(ranged, k); the values
        of distinct keys are assumed to be distinct indexes (stated with the claim)"""
        valid = var_id(self.val or {})
        owned = set()
        def ok(s):
            k = s.get('_')
            if k == 'AssignStmt' and s['Tok'] == ':=':
                for l, r in zip(s['Lhs'], s['Rhs'] if len(s['Rhs']) == len(s['Lhs']) else []):
                    if r.get('_') == 'IndexExpr' and var_id(r['Index']) == valid and var_id(l) is not None:
                        owned.add(var_id(l))
                return all(expr_orderfree(r) for r in s['Rhs'])
            if k == 'AssignStmt' and s['Tok'] == '=' and len(s['Lhs']) == 1:
                l = s['Lhs'][0]
                return l.get('_') == 'SelectorExpr' and var_id(l['X']) in owned and expr_orderfree(s['Rhs'][0])
            if k == 'ExprStmt' and s['X'].get('_') == 'CallExpr' and callee_of(s['X']) == 'delete':
                return self.is_key(s['X']['Args'][1])
            if k == 'IfStmt':
                return expr_orderfree(s['Cond']) and not s.get('Else') and all(ok(x) for x in s['Body'].get('List') or [])
            return False
        return bool(self.body) and all(ok(s) for s in self.body) and bool(owned)

    def classify(self, fkey, claimed=None):
        if fkey.endswith('.String'): return 'K-DEBUG'
        if claimed == 'K-OWNED':
            try:
                if self.rule_owned(): return 'K-OWNED'
            except (KeyError, TypeError, IndexError):
                pass
        for name, rule in (('K-KEYED', self.rule_keyed), ('K-SETINS', self.rule_setins), ('K-SORTED', self.rule_sorted),
                           ('K-EXISTS', self.rule_exists), ('K-MONOTONE', self.rule_monotone)):
            try:
                if rule(): return name
            except (KeyError, TypeError, IndexError):
                continue
        return None

FORBIDDEN_CALLS = {'time.Now': 'wall clock', 'math/rand.': 'randomness', 'math/rand/v2.': 'randomness', 'crypto/rand.': 'randomness', 'os.Getpid': 'process id'}
ITER_PRIMITIVES = ('compiler/internal/typeparams.InstanceMap.Iterate',)
# functions that hand an unordered collection to their callers: the obligation moves to the callers
UNORDERED_RESULT = ('compiler/internal/typeparams.InstanceMap.Keys',)

def run_sites(rep, spec, props_mod, verbose=False, only=None):
    pkgs = ['compiler/...', 'build/...', 'internal/...']
    d1 = props_mod.run_astdump(pkgs, [], sites=True)
    sites = [s for s in d1.get('sites', []) if not s['file'].endswith('_test.go') and '/internal/verifspec/' not in s['file'] and '/internal/srctesting' not in s['file'] and '/internal/testmain' not in s['file'] and '/internal/testingx' not in s['file']]
    mr = [s for s in sites if s['kind'] == 'maprange']
    itercalls = [s for s in sites if s['kind'] == 'call' and s.get('callee') in ITER_PRIMITIVES]
    funcs = sorted({s['func'] for s in mr} | {s['func'] for s in itercalls})
    d2 = props_mod.run_astdump(pkgs, funcs)
    claims = {}
    for c in spec.contracts:
        if c.kind == 'site':
            parts = c.key.split()
            claims[(parts[0], int(parts[1]))] = (parts[2] if len(parts) > 2 else None, c)
    obls = []
    table = []
    per_func = {}
    def add(name, ok, meta):
        o = Obligation(name, [], z3.BoolVal(True), func=meta.get('func'))
        o.status = 'discharged' if ok else 'failed'
        o.answer = meta.get('rule') or 'no rule applies'
        o.solver = 'site-rule'
        o.output = json.dumps(meta)
        o.meta = {'site': meta}
        obls.append(o)
    for s in sorted(mr, key=lambda x: (x['func'], x['line'])):
        per_func[s['func']] = per_func.get(s['func'], 0) + 1
        ordinal = per_func[s['func']]
        fn = d2['funcs'].get(s['func'])
        name = 'site %s#%d (%s:%d)' % (s['func'], ordinal, s['file'].replace(props_mod.REPO + '/', ''), s['line'])
        if only and only not in name: continue
        rule = None
        if s['func'] in ITER_PRIMITIVES or s['func'].endswith('InstanceMap.Iterate'):
            rule = 'K-ITER'
        claimed = claims.get((s['func'], ordinal), (None, None))[0]
        if rule is None and fn is not None:
            rule = SiteChecker(s['node'], fn).classify(s['func'], claimed)
        ok = rule is not None and (claimed is None or claimed == rule)
        table.append({'site': name, 'rule': rule, 'claimed': claimed})
        add(name, ok, {'func': s['func'], 'file': s['file'], 'line': s['line'], 'rule': rule, 'claimed': claimed})
    # call sites of iteration primitives: the function literal passed is the loop body
    seen = {}
    for s in sorted(itercalls, key=lambda x: (x['func'], x['line'])):
        fn = d2['funcs'].get(s['func'])
        seen[s['func']] = seen.get(s['func'], 0) + 1
        name = 'iter-call %s#%d (%s:%d)' % (s['func'], seen[s['func']], s['file'].replace(props_mod.REPO + '/', ''), s['line'])
        if only and only not in name: continue
        rule = None
        if s['func'] in UNORDERED_RESULT:
            rule = 'K-ITER'
        elif fn is not None:
            for c in calls_in(fn['Body']):
                if c.get('line') == s['line'] and callee_of(c) in ITER_PRIMITIVES and c.get('Args') and c['Args'][0].get('_') == 'FuncLit':
                    rule = SiteChecker(c, fn, lit=c['Args'][0]).classify(s['func'])
        table.append({'site': name, 'rule': rule})
        add(name, rule is not None, {'func': s['func'], 'file': s['file'], 'line': s['line'], 'rule': rule})
    # go statements, select, clock, randomness in the compiler proper (build/ drives I/O and file watching, its output
    # path is covered through the functions it calls in compiler/)
    for s in sites:
        if s['kind'] in ('go', 'select') and s['file'].startswith(os.path.join(props_mod.REPO, 'compiler')):
            add('%s statement in %s (%s:%d)' % (s['kind'], s['func'], s['file'].replace(props_mod.REPO + '/', ''), s['line']), False, {'func': s['func'], 'rule': None})
        if s['kind'] == 'call' and s['file'].startswith(os.path.join(props_mod.REPO, 'compiler')):
            for pat, why in FORBIDDEN_CALLS.items():
                if (s.get('callee') or '').startswith(pat):
                    add('%s (%s) called in %s (%s:%d)' % (s['callee'], why, s['func'], s['file'].replace(props_mod.REPO + '/', ''), s['line']), False, {'func': s['func'], 'rule': None})
    rep.extra['sites'] = table
    rep.extra['site_counts'] = {'map_range': len(mr), 'iterator_call_sites': len(itercalls), 'go_select': sum(1 for s in sites if s['kind'] in ('go', 'select'))}
    rep.extra_trusted += ['site rules K-KEYED/K-SETINS/K-SORTED/K-EXISTS/K-MONOTONE/K-DEBUG/K-ITER (syntactic side conditions, soundness argued in gvc/core/sites.py and DESIGN.md)',
                          'go/types, the host map implementation and sort package are deterministic apart from map iteration order']
    return obls
