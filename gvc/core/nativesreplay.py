# Replay of counterexamples for natives overlays: the function is only reachable as part of a GopherJS build, so the
# compiler of /repo is built, a small main package calling the standard-library function with the model's inputs is
# compiled with it (GOPHERJS_SKIP_VERSION_CHECK: the host GOROOT is newer than the supported one), run under node, and
# the contract is evaluated on the concrete inputs and outputs.
import os, re, json, subprocess, tempfile, shutil, struct
import z3
from .values import *
from .gostate import *
from .gospec import SpecEnv

REPO = os.environ.get('VERIF_REPO', '/repo')
ENV = dict(os.environ, GOFLAGS='-mod=mod', GOPROXY='off', GOSUMDB='off', GOTOOLCHAIN='local', GOPHERJS_SKIP_VERSION_CHECK='true')
_bin = {}

class NoReplay(Exception):
    pass

def gopherjs_bin():
    if 'path' in _bin and os.path.exists(_bin['path']):
        return _bin['path']
    d = tempfile.mkdtemp(prefix='gvc-gopherjs-')
    p = subprocess.run(['go', 'build', '-o', os.path.join(d, 'gopherjs.bin'), '.'], cwd=REPO, env=ENV, stdout=subprocess.PIPE, stderr=subprocess.STDOUT, text=True)
    if p.returncode != 0:
        shutil.rmtree(d, ignore_errors=True)
        raise NoReplay('cannot build gopherjs: ' + p.stdout[-500:])
    _bin['path'] = os.path.join(d, 'gopherjs.bin'); _bin['dir'] = d
    import atexit
    atexit.register(lambda: shutil.rmtree(d, ignore_errors=True))
    return _bin['path']

def run_program(src):
    binp = gopherjs_bin()
    d = tempfile.mkdtemp(prefix='gvc-natrun-')
    try:
        with open(os.path.join(d, 'go.mod'), 'w') as f: f.write('module gvcreplay\ngo 1.20\n')
        with open(os.path.join(d, 'main.go'), 'w') as f: f.write(src)
        goroot = subprocess.run(['go', 'env', 'GOROOT'], env=ENV, stdout=subprocess.PIPE, text=True).stdout.strip()
        env = dict(ENV, GOPHERJS_GOROOT=goroot)
        p = subprocess.run([binp, 'build', '-o', 'out.js', 'main.go'], cwd=d, env=env, stdout=subprocess.PIPE, stderr=subprocess.STDOUT, text=True, timeout=600)
        if p.returncode != 0:
            raise NoReplay('gopherjs build failed: ' + p.stdout[-600:])
        q = subprocess.run(['node', 'out.js'], cwd=d, stdout=subprocess.PIPE, stderr=subprocess.STDOUT, text=True, timeout=120)
        return q.stdout
    finally:
        shutil.rmtree(d, ignore_errors=True)

INLINE_PKGS = ('internal/bytealg', 'bytes')

def cut_function(pkgpath, fname):
    """the source text of a top-level function of an override package, cut out of /repo (self-contained functions only)"""
    import glob
    for fn in sorted(glob.glob(os.path.join(REPO, 'compiler/natives/src', pkgpath, '*.go'))):
        if fn.endswith('_test.go'): continue
        txt = open(fn).read()
        m = re.search(r'^func %s\(.*?^}\n' % re.escape(fname), txt, re.S | re.M)
        if m: return m.group(0)
    raise NoReplay('source of %s.%s not found' % (pkgpath, fname))

# Reference oracles for spec functions that name "what the upstream implementation returns": on a concrete replay they
# are evaluated by running the upstream function natively (the host Go toolchain compiles package math unchanged).
ORACLES = {'spec_ldexpOrig': ('math', 'Ldexp', ('f64', 'int'), 'f64')}

def native_oracle(pkg, fn, argtypes, rettype, args):
    lits = ['math.Float64frombits(%d)' % a if t == 'f64' else 'int(%d)' % a for t, a in zip(argtypes, args)]
    src = 'package main\n\nimport (\n\t"math"\n\t"%s"\n)\n\nvar _ = math.Float64bits\n\nfunc main() {\n\tr := %s.%s(%s)\n\tprintln("O", math.Float64bits(r))\n}\n' % (
        pkg, pkg.split('/')[-1], fn, ', '.join(lits))
    if pkg == 'math': src = src.replace('\t"math"\n\t"math"\n', '\t"math"\n')
    d = tempfile.mkdtemp(prefix='gvc-oracle-')
    try:
        with open(os.path.join(d, 'go.mod'), 'w') as f: f.write('module gvcoracle\ngo 1.20\n')
        with open(os.path.join(d, 'main.go'), 'w') as f: f.write(src)
        p = subprocess.run(['go', 'run', '.'], cwd=d, env=ENV, stdout=subprocess.PIPE, stderr=subprocess.STDOUT, text=True, timeout=300)
        m = re.search(r'O (\d+)', p.stdout)
        if not m: raise NoReplay('native oracle failed: ' + p.stdout[-300:])
        return int(m.group(1))
    finally:
        shutil.rmtree(d, ignore_errors=True)

def instantiate(hyps, goal):
    """instances of the universally quantified hypotheses at the ground applications of their trigger functions that occur
    in the goal and the ground hypotheses (one round of matching on applications whose arguments are the bound variables)"""
    ground = [h for h in hyps if not z3.is_quantifier(h)]
    apps = {}
    def collect(t, seen):
        if t.get_id() in seen or z3.is_quantifier(t): return
        seen.add(t.get_id())
        if z3.is_app(t):
            if t.num_args() > 0 and t.decl().kind() == z3.Z3_OP_UNINTERPRETED:
                apps.setdefault(t.decl().name(), []).append(t)
            for c in t.children(): collect(c, seen)
    seen = set()
    for t in ground + [goal]: collect(t, seen)
    out = []
    for h in hyps:
        if not (z3.is_quantifier(h) and h.is_forall()): continue
        n = h.num_vars(); body = h.body()
        trig = []
        def find(t, seen2):
            if t.get_id() in seen2: return
            seen2.add(t.get_id())
            if z3.is_app(t):
                if t.decl().kind() == z3.Z3_OP_UNINTERPRETED and t.num_args() > 0:
                    idx = [z3.get_var_index(a) for a in t.children() if z3.is_var(a)]
                    if len(set(idx)) == n: trig.append(t)
                for c in t.children(): find(c, seen2)
        find(body, set())
        for tr in trig[:1]:
            for g in apps.get(tr.decl().name(), []):
                if g.decl() != tr.decl(): continue
                sub = {}; ok = True
                for a, b in zip(tr.children(), g.children()):
                    if z3.is_var(a):
                        i = z3.get_var_index(a)
                        if i in sub and not sub[i].eq(b): ok = False
                        sub[i] = b
                    elif not a.eq(b): ok = False
                if ok and len(sub) == n:
                    # substitute_vars replaces Var(i) by the i-th argument
                    out.append(z3.substitute_vars(body, *[sub[i] for i in range(n)]))
    return ground + out

class NativesReplayer:
    replays_unknown = True      # (quantified axioms: candidates are searched and judged on the real code)
    def __init__(self, verifier, frame, entry, params, rnames, rtids, pkgpath, fname):
        self.v, self.fr, self.entry, self.params, self.rnames, self.rtids = verifier, frame, entry, params, rnames, rtids
        self.pkgpath, self.fname = pkgpath, fname

    def conc(self, m, v, tid):
        tt = self.v.tt
        if z3.is_fp(v):
            bits = m.eval(z3.fpToIEEEBV(v), model_completion=True).as_long()
            return ('f64', bits)
        if isinstance(v, z3.ExprRef) and z3.is_bool(v):
            return ('bool', bool(z3.is_true(m.eval(v, model_completion=True))))
        if isinstance(v, z3.ExprRef):
            r = m.eval(v, model_completion=True)
            tn = str(tt[tid].get('b') or tt[tid].get('s') or '')
            return ('int', (r.as_long() if tn.startswith('uint') else r.as_signed_long()) if z3.is_bv(r) else r.as_long())
        from .values import SliceV, StrV
        if isinstance(v, (SliceV, StrV)) and (isinstance(v, StrV) or len(v.arrs) == 1):
            # a byte slice or a string: the bytes of the model between offset and offset + length
            def iv(e):
                r = m.eval(e, model_completion=True)
                return r.as_long()
            n, off = iv(v.len), iv(v.off)
            if n < 0 or n > 64: raise NoReplay('model slice of length %d' % n)
            bs = [iv(z3.Select(v.arr, off + k)) for k in range(n)]
            if any(b < 0 or b > 255 for b in bs): raise NoReplay('model element is not a byte')
            if isinstance(v, StrV): return ('str', bs)
            return ('bytes', bs, bool(z3.is_true(m.eval(v.isnil, model_completion=True))), v.etid)
        raise NoReplay('parameter kind')

    def bind(self, cv, t):
        """the z3-level value of a concrete input for the evaluation of the contract"""
        if cv[0] == 'f64': return z3.fpBVToFP(z3.BitVecVal(cv[1], 64), F64)
        if cv[0] == 'bool': return z3.BoolVal(cv[1])
        if cv[0] in ('str', 'bytes'):
            from .values import SliceV, StrV
            arr = z3.K(z3.IntSort(), z3.IntVal(0))
            for k, b in enumerate(cv[1]): arr = z3.Store(arr, k, z3.IntVal(b))
            n = z3.IntVal(len(cv[1]))
            if cv[0] == 'str': return StrV(arr, z3.IntVal(0), n)
            return SliceV([arr], z3.IntVal(0), n, n, cv[3], z3.BoolVal(False))
        return self.intval(cv[1], t)

    def show(self, cv):
        if cv[0] in ('str', 'bytes'): return str(cv[1])
        if cv[0] == 'f64': return '%r (bits 0x%016x)' % (struct.unpack('<d', struct.pack('<Q', cv[1]))[0], cv[1])
        return str(cv[1])

    def golit(self, c, tid):
        tn = self.v.tt[tid].get('b') or self.v.tt[tid].get('s')
        if c[0] == 'f64': return 'math.Float64frombits(%d)' % c[1]
        if c[0] == 'bool': return 'true' if c[1] else 'false'
        if c[0] == 'str': return '"%s"' % ''.join('\\x%02x' % b for b in c[1])
        if c[0] == 'bytes': return '[]byte(nil)' if (c[2] and not c[1]) else '[]byte{%s}' % ', '.join(str(b) for b in c[1])
        return '%s(%d)' % (tn, c[1])

    def lift(self, txt, tid):
        tt = self.v.tt
        if tt.is_float(tid):
            bits = int(txt)
            return z3.fpBVToFP(z3.BitVecVal(bits, 64), F64)
        if tt.is_bool(tid):
            return z3.BoolVal(txt == 'true')
        return self.intval(int(txt), tid)

    def decide(self, e):
        s = z3.Solver(); s.set('timeout', 10000); s.add(z3.Not(e))
        # spec functions that stand for the upstream implementation: evaluated natively on the concrete arguments
        todo, seen = [e], set()
        while todo:
            t = todo.pop()
            if t.get_id() in seen or not z3.is_app(t): continue
            seen.add(t.get_id()); todo += t.children()
            if t.decl().name() in ORACLES:
                pkg, fn, ats, rt = ORACLES[t.decl().name()]
                args = []
                for at, a in zip(ats, t.children()):
                    a = z3.simplify(a)
                    args.append(z3.simplify(z3.fpToIEEEBV(a)).as_long() if at == 'f64' else a.as_long())
                bits = native_oracle(pkg, fn, ats, rt, args)
                s.add(t == z3.fpBVToFP(z3.BitVecVal(bits, 64), F64))
                self.oracle_note = '%s.%s run natively (upstream implementation) as the reference' % (pkg, fn)
        r = s.check()
        return True if r == z3.unsat else (False if r == z3.sat else None)

    def replay(self, ob):
        s = z3.Solver(); s.set('timeout', 60000); s.add(ob.hyps)
        if ob.kind == 'proof': s.add(z3.Not(ob.goal))
        import signal
        quant = any(z3.is_quantifier(h) for h in ob.hyps) and ob.kind == 'proof'
        r0 = z3.unknown
        if not (quant and ob.answer == 'unknown'):
            signal.alarm(30)          # (replays run in a forked child: a solver call that ignores its timeout ends the child, not the check)
            r0 = s.check()
            signal.alarm(0)
        if r0 == z3.sat:
            return self.replay_models([s.model()])
        if not quant:
            return {'violates': False, 'note': 'in-process solver did not produce a model'}
        # quantified axioms: the solver cannot certify a model.  Candidates from the ground hypotheses plus the axiom instances
        # at the terms of the obligation, spread over magnitude classes of the floating-point parameters; every candidate is
        # judged on the real code (one compiled program for all of them), so a spurious one costs nothing else.
        inst = instantiate(ob.hyps, ob.goal)
        s = z3.Solver(); s.set('timeout', 10000); s.add(inst); s.add(z3.Not(ob.goal))
        fps = [v for (n, t, v, isrecv) in self.params if isinstance(v, z3.ExprRef) and z3.is_fp(v)]
        def c(x): return z3.FPVal(x, F64)
        classes = [lambda v: z3.BoolVal(True), lambda v: z3.fpGEQ(z3.fpAbs(v), c(2.0)), lambda v: z3.And(z3.fpLEQ(z3.fpAbs(v), c(0.5)), z3.Not(z3.fpIsZero(v))),
                   lambda v: z3.fpGEQ(z3.fpAbs(v), c(2.0 ** 80)), lambda v: z3.fpLT(v, c(0.0)), lambda v: z3.fpIsSubnormal(v)]
        models = []
        for cls in classes:
            s.push()
            for v in fps: s.add(cls(v))
            signal.alarm(20); r = s.check(); signal.alarm(0)
            if r == z3.sat:
                m = s.model(); models.append(m)
            s.pop()
            if r == z3.sat:
                blk = [v != m.eval(v, model_completion=True) for (n, t, v, isrecv) in self.params if isinstance(v, z3.ExprRef)]
                if blk: s.add(z3.Or(blk))
            if not fps and models: break
        if not models:
            return {'violates': False, 'note': 'no candidate model from the ground hypotheses and the axiom instances'}
        res = self.replay_models(models)
        res['candidates'] = len(models)
        if res.get('violates'):
            res['note'] = 'candidate model from the ground hypotheses and the axiom instances at the terms of the obligation, confirmed on the real code'
        return res

    def replay_models(self, models):
        tt = self.v.tt
        try:
            shortpkg = self.pkgpath.split('/')[-1]
            # Packages a replay program cannot import (internal ones; bytes, whose dependencies do not build against the
            # host GOROOT of this sandbox): the text of the function is cut out of the override file in /repo and placed in
            # the program itself -- it is still the repository's code, compiled by the repository's compiler.
            inline_src = None
            if self.pkgpath in INLINE_PKGS:
                inline_src = cut_function(self.pkgpath, self.fname)
            allins, funcs = [], []
            for k, m in enumerate(models):
                ins = [(n, t, self.conc(m, v, t)) for (n, t, v, isrecv) in self.params]
                allins.append(ins)
                args = ', '.join(self.golit(c, t) for n, t, c in ins)
                prints = []
                for i, rt in enumerate(self.rtids):
                    if tt.is_float(rt): prints.append('b%d := math.Float64bits(r%d); println("K%d R%d", uint32(b%d>>32), uint32(b%d))' % (i, i, k, i, i, i))
                    else: prints.append('println("K%d R%d", r%d)' % (k, i, i))
                lhs = ', '.join('r%d' % i for i in range(len(self.rtids)))
                funcs.append('func c%d() {\n\tdefer func() { if e := recover(); e != nil { println("K%d PANIC") } }()\n\t%s := %s%s(%s)\n\t%s\n}\n' % (
                    k, k, lhs, '' if inline_src else shortpkg + '.', self.fname, args, '\n\t'.join(prints)))
            if inline_src: funcs.append('// cut from compiler/natives/src/%s\n%s\n' % (self.pkgpath, inline_src))
            imports = '"math"' if (self.pkgpath == 'math' or inline_src) else '"math"\n\t"%s"' % self.pkgpath
            src = 'package main\n\nimport (\n\t%s\n)\n\nvar _ = math.Float64bits\n\n%s\nfunc main() {\n%s}\n' % (
                imports, '\n'.join(funcs), ''.join('\tc%d()\n' % k for k in range(len(models))))
            allout = run_program(src)
        except NoReplay as e:
            return {'violates': False, 'note': 'not replayable: %s' % e}
        last = None
        for k, ins in enumerate(allins):
            out = '\n'.join(l[len('K%d ' % k):] for l in allout.splitlines() if l.startswith('K%d ' % k))
            last = self.judge(src, ins, out, k)
            if last.get('violates'):
                return last
        return last

    def judge(self, src, ins, out, k):
        tt = self.v.tt
        res = {'program': src, 'candidate': k, 'inputs': {n: (('0x%016x' % c[1]) if c[0] == 'f64' else c[1]) for n, t, c in ins}, 'output': out.strip(),
               'harness': 'gopherjs built from /repo, program compiled with it and run under node', 'violated_clauses': []}
        c = self.fr.contract
        # the contract is evaluated in its own arithmetic mode (mode bv: integers are bit-vectors of the type's width)
        saved_mode = self.v.mode
        self.v.mode = c.get('mode')[0].text.strip() if c.get('mode') else saved_mode
        try:
            return self.judge2(res, c, ins, out)
        finally:
            self.v.mode = saved_mode

    def intval(self, n, tid):
        if self.v.mode == 'bv':
            w, _ = self.v.tt.intinfo(tid) or (64, True)
            return z3.BitVecVal(n, w or 64)
        return z3.IntVal(n)

    def judge2(self, res, c, ins, out):
        tt = self.v.tt
        try:
            pre = State(); pre.meta['concrete'] = True; pre.entry = pre
            binds = {}
            for (n, t, cv) in ins:
                binds[n] = self.bind(cv, t)
            envpre = SpecEnv(pre, binds, pre)
            for cl in c.get('requires'):
                if self.decide(self.v.sev_bool(envpre, cl.expr)) is False:
                    res['note'] = 'model input does not satisfy the precondition (spurious)'; res['violates'] = False
                    return res
            if 'PANIC' in out:
                if not c.get('panics_if') and not c.get('panics_only_if'):
                    res['violated_clauses'].append('unexpected panic')
            else:
                rb = dict(binds)
                for i, (rn, rt) in enumerate(zip(self.rnames, self.rtids)):
                    mm = re.search(r'R%d (\S+)(?: (\S+))?' % i, out)
                    if not mm: raise NoReplay('no result in output: ' + out[-300:])
                    txt = mm.group(1)
                    if tt.is_float(rt): txt = str(int(mm.group(1)) * 4294967296 + int(mm.group(2)))
                    rb[rn] = self.lift(txt, rt)
                if len(self.rtids) == 1: rb['result'] = rb[self.rnames[0]]
                envpost = SpecEnv(pre, rb, pre); envpost.binds_old = binds
                for cl in c.get('ensures'):
                    try:
                        d = self.decide(self.v.sev_bool(envpost, cl.expr))
                    except (Unsupported, KeyError, z3.Z3Exception):
                        d = None
                    if d is False:
                        res['violated_clauses'].append('ensures %s  [%s.%s(%s) -> %s]' % (cl.text, self.pkgpath, self.fname,
                            ', '.join('%s=%s' % (n, self.show(cv)) for n, t, cv in ins), out.strip().replace('\n', '; ')))
        except (NoReplay, Unsupported) as e:
            res['note'] = 'contract could not be evaluated concretely: %r' % (e,)
        res['violates'] = bool(res['violated_clauses'])
        if getattr(self, 'oracle_note', None): res['reference'] = self.oracle_note
        return res
