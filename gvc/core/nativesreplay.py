# Replay of counterexamples for natives overlays: the function is only reachable as part of a GopherJS build, so the
# compiler of /repo is built, a small main package calling the standard-library function with the model's inputs is
# compiled with it (GOPHERJS_SKIP_VERSION_CHECK: the host GOROOT is newer than the supported one), run under node, and
# the contract is evaluated on the concrete inputs and outputs.
import os, re, json, subprocess, tempfile, shutil, struct
import z3
from .values import *
from .gostate import *
from .gospec import SpecEnv

REPO = os.environ.get('VERIF_REPO', '/repo')
ENV = dict(os.environ, GOFLAGS='-mod=mod', GOPROXY='off', GOSUMDB='off', GOTOOLCHAIN='local', GOPHERJS_SKIP_VERSION_CHECK='true')
_bin = {}

class NoReplay(Exception):
    pass

def gopherjs_bin():
    if 'path' in _bin and os.path.exists(_bin['path']):
        return _bin['path']
    d = tempfile.mkdtemp(prefix='gvc-gopherjs-')
    p = subprocess.run(['go', 'build', '-o', os.path.join(d, 'gopherjs.bin'), '.'], cwd=REPO, env=ENV, stdout=subprocess.PIPE, stderr=subprocess.STDOUT, text=True)
    if p.returncode != 0:
        shutil.rmtree(d, ignore_errors=True)
        raise NoReplay('cannot build gopherjs: ' + p.stdout[-500:])
    _bin['path'] = os.path.join(d, 'gopherjs.bin'); _bin['dir'] = d
    import atexit
    atexit.register(lambda: shutil.rmtree(d, ignore_errors=True))
    return _bin['path']

def run_program(src):
    binp = gopherjs_bin()
    d = tempfile.mkdtemp(prefix='gvc-natrun-')
    try:
        with open(os.path.join(d, 'go.mod'), 'w') as f: f.write('module gvcreplay\ngo 1.20\n')
        with open(os.path.join(d, 'main.go'), 'w') as f: f.write(src)
        goroot = subprocess.run(['go', 'env', 'GOROOT'], env=ENV, stdout=subprocess.PIPE, text=True).stdout.strip()
        env = dict(ENV, GOPHERJS_GOROOT=goroot)
        p = subprocess.run([binp, 'build', '-o', 'out.js', 'main.go'], cwd=d, env=env, stdout=subprocess.PIPE, stderr=subprocess.STDOUT, text=True, timeout=600)
        if p.returncode != 0:
            raise NoReplay('gopherjs build failed: ' + p.stdout[-600:])
        q = subprocess.run(['node', 'out.js'], cwd=d, stdout=subprocess.PIPE, stderr=subprocess.STDOUT, text=True, timeout=120)
        return q.stdout
    finally:
        shutil.rmtree(d, ignore_errors=True)

class NativesReplayer:
    def __init__(self, verifier, frame, entry, params, rnames, rtids, pkgpath, fname):
        self.v, self.fr, self.entry, self.params, self.rnames, self.rtids = verifier, frame, entry, params, rnames, rtids
        self.pkgpath, self.fname = pkgpath, fname

    def conc(self, m, v, tid):
        tt = self.v.tt
        if z3.is_fp(v):
            bits = m.eval(z3.fpToIEEEBV(v), model_completion=True).as_long()
            return ('f64', bits)
        if isinstance(v, z3.ExprRef) and z3.is_bool(v):
            return ('bool', bool(z3.is_true(m.eval(v, model_completion=True))))
        if isinstance(v, z3.ExprRef):
            r = m.eval(v, model_completion=True)
            return ('int', r.as_signed_long() if z3.is_bv(r) else r.as_long())
        raise NoReplay('parameter kind')

    def golit(self, c, tid):
        tn = self.v.tt[tid].get('b') or self.v.tt[tid]['s']
        if c[0] == 'f64': return 'math.Float64frombits(%d)' % c[1]
        if c[0] == 'bool': return 'true' if c[1] else 'false'
        return '%s(%d)' % (tn, c[1])

    def lift(self, txt, tid):
        tt = self.v.tt
        if tt.is_float(tid):
            bits = int(txt)
            return z3.fpBVToFP(z3.BitVecVal(bits, 64), F64)
        if tt.is_bool(tid):
            return z3.BoolVal(txt == 'true')
        return z3.IntVal(int(txt))

    def decide(self, e):
        s = z3.Solver(); s.set('timeout', 10000); s.add(z3.Not(e))
        r = s.check()
        return True if r == z3.unsat else (False if r == z3.sat else None)

    def replay(self, ob):
        s = z3.Solver(); s.set('timeout', 60000); s.add(ob.hyps)
        if ob.kind == 'proof': s.add(z3.Not(ob.goal))
        import signal
        signal.alarm(30)          # (replays run in a forked child: a solver call that ignores its timeout ends the child, not the check)
        r0 = s.check()
        signal.alarm(0)
        if r0 != z3.sat:
            return {'violates': False, 'note': 'in-process solver did not produce a model'}
        m = s.model()
        try:
            ins = [(n, t, self.conc(m, v, t)) for (n, t, v, isrecv) in self.params]
            shortpkg = self.pkgpath.split('/')[-1]
            args = ', '.join(self.golit(c, t) for n, t, c in ins)
            tt = self.v.tt
            prints = []
            for i, rt in enumerate(self.rtids):
                if tt.is_float(rt): prints.append('b%d := math.Float64bits(r%d); println("R%d", uint32(b%d>>32), uint32(b%d))' % (i, i, i, i, i))
                else: prints.append('println("R%d", r%d)' % (i, i))
            lhs = ', '.join('r%d' % i for i in range(len(self.rtids)))
            imports = '"math"' if self.pkgpath == 'math' else '"math"\n\t"%s"' % self.pkgpath
            src = 'package main\n\nimport (\n\t%s\n)\n\nvar _ = math.Float64bits\n\nfunc main() {\n\tdefer func() { if e := recover(); e != nil { println("PANIC") } }()\n\t%s := %s.%s(%s)\n\t%s\n}\n' % (
                imports, lhs, shortpkg, self.fname, args, '\n\t'.join(prints))
            out = run_program(src)
        except NoReplay as e:
            return {'violates': False, 'note': 'not replayable: %s' % e}
        res = {'program': src, 'inputs': {n: (('0x%016x' % c[1]) if c[0] == 'f64' else c[1]) for n, t, c in ins}, 'output': out.strip(),
               'harness': 'gopherjs built from /repo, program compiled with it and run under node', 'violated_clauses': []}
        c = self.fr.contract
        try:
            pre = State(); pre.meta['concrete'] = True; pre.entry = pre
            binds = {}
            for (n, t, cv) in ins:
                binds[n] = z3.fpBVToFP(z3.BitVecVal(cv[1], 64), F64) if cv[0] == 'f64' else (z3.BoolVal(cv[1]) if cv[0] == 'bool' else z3.IntVal(cv[1]))
            envpre = SpecEnv(pre, binds, pre)
            for cl in c.get('requires'):
                if self.decide(self.v.sev_bool(envpre, cl.expr)) is False:
                    res['note'] = 'model input does not satisfy the precondition (spurious)'; res['violates'] = False
                    return res
            if 'PANIC' in out:
                if not c.get('panics_if') and not c.get('panics_only_if'):
                    res['violated_clauses'].append('unexpected panic')
            else:
                rb = dict(binds)
                for i, (rn, rt) in enumerate(zip(self.rnames, self.rtids)):
                    mm = re.search(r'R%d (\S+)(?: (\S+))?' % i, out)
                    if not mm: raise NoReplay('no result in output: ' + out[-300:])
                    txt = mm.group(1)
                    if tt.is_float(rt): txt = str(int(mm.group(1)) * 4294967296 + int(mm.group(2)))
                    rb[rn] = self.lift(txt, rt)
                if len(self.rtids) == 1: rb['result'] = rb[self.rnames[0]]
                envpost = SpecEnv(pre, rb, pre); envpost.binds_old = binds
                for cl in c.get('ensures'):
                    try:
                        d = self.decide(self.v.sev_bool(envpost, cl.expr))
                    except (Unsupported, KeyError, z3.Z3Exception):
                        d = None
                    if d is False:
                        res['violated_clauses'].append('ensures ' + cl.text)
        except (NoReplay, Unsupported) as e:
            res['note'] = 'contract could not be evaluated concretely: %r' % (e,)
        res['violates'] = bool(res['violated_clauses'])
        return res
