# Calls: builtins, conversions, modular use of callee contracts, inlining of leaf helpers.
import z3, os, re
from .values import *
from .gostate import *
from .gospec import SpecEnv
from .goexec import PanicEx, ReturnEx, PathEnd, simp_bool, BreakEx, ContinueEx

unbox_int = z3.Function('unbox_int', I, I)

LOGGING = ('github.com/sirupsen/logrus.', 'log.Print', 'log.Printf', 'log.Println')

class CallsMixin:
    def ev_CallExpr(self, st, e):
        f = e['Fun']
        args = e.get('Args', [])
        line = e.get('line')
        while f['_'] == 'ParenExpr':
            f = f['X']
        if f.get('isType'):
            return self.convert(st, self.ev(st, args[0]), args[0].get('t'), f['t'], line, args[0])
        if f.get('isBuiltin') or (f['_'] == 'Ident' and f.get('obj', {}).get('kind') == 'Builtin'):
            return self.builtin(st, f['Name'], args, e)
        self._recv_expr = None
        key, recv = self.callee_key(st, f)
        rx = self._recv_expr
        if key is None:
            fv = self.ev(st, f)
            nm0 = f.get('Name') if f['_'] == 'Ident' else None
            if nm0 and self.frame and self.frame.contract and any(
                    re.match(r'%s\s*:\s*contract\s' % re.escape(nm0), cl.text) for cl in self.frame.contract.get('oncall')):
                return self.call_opaque(st, fv, args, e)      # the literal has a contract of its own
            if isinstance(fv, FuncV) and fv.lit is not None:
                return self.call_literal(st, fv, [self.ev(st, a) for a in args], e)
            return self.call_opaque(st, fv, args, e)
        if any(key.startswith(p) for p in LOGGING):
            for a in args:
                try: self.ev(st, a)
                except Unsupported: pass
            return TupleV([])
        argv = [self.ev(st, a) for a in args]
        argv = self.coerce_args(st, f, args, argv, e)
        self._recv_expr = rx
        return self.call_key(st, key, recv, argv, e)

    def coerce_args(self, st, f, args, argv, e):
        """implicit conversions at a call: nil to the parameter type, values to interface parameters, variadic packing"""
        ft = f.get('t')
        if ft is None or self.tt.kind(ft) != 'func':
            return argv
        ptypes = self.tt[ft]['params']
        variadic = self.tt[ft].get('variadic')
        out = []
        nfix = len(ptypes) - 1 if variadic else len(ptypes)
        def conv(v, a, pt):
            if isinstance(v, IfaceV) and self.tt.kind(pt) != 'iface' and (a.get('isNil') or a.get('Name') == 'nil'):
                return self.lay.zero(pt)
            if self.tt.kind(pt) == 'iface' and not isinstance(v, IfaceV):
                return self.box(st, v, a.get('t'))
            return v
        for i in range(min(nfix, len(argv))):
            out.append(conv(argv[i], args[i], ptypes[i]))
        if variadic:
            if e.get('Ellipsis'):
                out.append(argv[nfix])
            else:
                etid = self.tt[ptypes[-1]]['e']
                rest = [conv(v, a, etid) for v, a in zip(argv[nfix:], args[nfix:])]
                es = self.lay.sorts(etid)
                arrs = [fresh('va.arr', z3.ArraySort(I, s)) for s in es]
                for i, v in enumerate(rest):
                    for a, t in zip(arrs, self.lay.flatten(v, etid)):
                        st.assume(z3.Select(a, i) == t)
                out.append(SliceV(arrs, z3.IntVal(0), z3.IntVal(len(rest)), z3.IntVal(len(rest)), etid, z3.BoolVal(len(rest) == 0)))
        return out

    def callee_key(self, st, f):
        if f['_'] == 'Ident':
            o = f.get('obj') or {}
            if o.get('kind') == 'Func':
                return o['full'], None
            return None, None
        if f['_'] == 'SelectorExpr':
            sel = f.get('sel')
            if sel is None:
                o = f['Sel'].get('obj') or {}
                if o.get('kind') == 'Func':
                    return o['full'], None
                return None, None
            if sel['kind'] == 'method':
                recv = self.ev(st, f['X'])
                self._recv_expr = f['X']
                key = sel.get('full')
                # adjust receiver for auto address / deref
                return key, (recv, f['X'].get('t'))
            return None, None
        if f['_'] in ('IndexExpr', 'IndexListExpr'):
            return self.callee_key(st, f['X'])
        return None, None

    def oncall_keyed(self, st, key, recv, argv):
        """`oncall <Name>: <hint>` clauses of the function under verification also apply to direct calls of a function or
        method called <Name>: checked in the pre-call state with a0, a1, ... bound to the arguments."""
        if not self.frame or not self.frame.contract or not self.frame.contract.get('oncall'):
            return
        nm = re.split(r'[./]', key)[-1]
        binds = {'a%d' % i: v for i, v in enumerate(argv)}
        if recv is not None:
            binds['recv'] = recv[0]
        for cl in self.frame.contract.get('oncall'):
            m = re.match(r'(\w+)\s*:\s*(.*)$', cl.text, re.S)
            if m and m.group(1) == nm and m.group(2).strip() != 'maypanic':
                env = SpecEnv(st, binds, st.entry)
                env.strict_names = True
                try:
                    self.run_hint(st, env, m.group(2), cl)
                except Unsupported as ex:
                    if 'unknown name' not in str(ex):
                        raise          # (a clause about a local that does not exist at this call site does not apply to it)

    def call_key(self, st, key, recv, argv, e):
        line = e.get('line')
        self.oncall_keyed(st, key, recv, argv)
        for pref in ('natives:', 'goroot:'):       # functions of a std package merged with its overlay are keyed by origin
            if key not in self.contracts and key not in self.funcs and key not in self.externs and (pref + key in self.contracts or pref + key in self.funcs or pref + key in self.externs):
                key = pref + key
        c = self.contracts.get(key)
        if c is not None and not (self.frame and key in self.frame_inlines()):
            return self.apply_contract(st, c, key, recv, argv, e, assumed=False)
        if self.frame and key in self.frame_inlines() and key in self.funcs:
            return self.inline_call(st, key, recv, argv, e)
        x = self.externs.get(key)
        if x is not None:
            return self.apply_contract(st, x, key, recv, argv, e, assumed=True)
        m = getattr(self, 'lib_' + key.replace('/', '_').replace('.', '_').replace('(', '').replace(')', '').replace('*', ''), None)
        if m is not None:
            self.assumed.add(key)
            return m(st, recv, argv, e)
        if key in self.funcs and key in getattr(self, 'auto_inline', ()):
            # a helper of the repository without a contract of its own: its body is verified as part of the caller
            stack = self.__dict__.setdefault('_inl_stack', [])
            if key in stack or len(stack) >= 4:
                raise Unsupported('recursive or too deep inlining of %s @%s' % (key, line))
            stack.append(key)
            if os.environ.get('GVC_DEBUG'): print('INLINE', key, '@', line)
            try:
                return self.inline_call(st, key, recv, argv, e)
            finally:
                stack.pop()
        ex = Unsupported('call of %s @%s: no contract, not inlined, no library model' % (key, line))
        ex.missing_callee = key
        raise ex

    def frame_inlines(self):
        fr = self.frame
        if not hasattr(fr, '_inl'):
            fr._inl = set()
            if fr.contract:
                for c in fr.contract.get('inline'):
                    fr._inl |= set(c.text.replace(',', ' ').split())
        return fr._inl

    # -- contract application --------------------------------------------------------------------
    def callee_signature(self, key, c):
        """parameter names/types and result names/types for a callee: from the dumped decl if present,
        else from the extern header '(recv, a T, b T) (r T, err error)'."""
        d = self.funcs.get(key)
        if d is not None:
            ps, rs = [], []
            rcv = None
            if d.get('Recv'):
                fld = d['Recv']['List'][0]
                rcv = (fld['Names'][0]['Name'] if fld.get('Names') else '_recv', fld['Type'].get('t'))
            for fld in (d['Type'].get('Params') or {}).get('List', []) or []:
                for n in fld.get('Names') or [{'Name': '_'}]:
                    ps.append((n['Name'], fld['Type'].get('t'), n.get('obj', {}).get('id')))
            i = 0
            for fld in (d['Type'].get('Results') or {}).get('List', []) or []:
                for n in fld.get('Names') or [{'Name': None}]:
                    rs.append((n['Name'] or ('result' if i == 0 else 'result%d' % i), fld['Type'].get('t'), n.get('obj', {}).get('id')))
                    i += 1
            return rcv, ps, rs
        return None

    def callee_writes(self, key):
        """names of the fields (or 'elems' / '*') the body of the function writes through a pointer, slice or map that is
        not a plain local: used to check at call sites that the callee's contract declares its frame"""
        cache = self.__dict__.setdefault('_cw', {})
        if key in cache:
            return cache[key]
        out = set()
        d = self.funcs.get(key)
        fresh_locals = set()          # locals that only ever hold objects allocated by the function itself
        def scan(n):
            if isinstance(n, list):
                for x in n: scan(x)
            elif isinstance(n, dict):
                if n.get('_') == 'AssignStmt' and len(n['Lhs']) == len(n['Rhs']):
                    for l, r in zip(n['Lhs'], n['Rhs']):
                        if l['_'] == 'Ident' and l.get('obj'):
                            isnew = (r['_'] == 'UnaryExpr' and r.get('Op') == '&' and r['X']['_'] == 'CompositeLit') or \
                                    (r['_'] == 'CallExpr' and r['Fun'].get('Name') == 'new' and r['Fun'].get('isBuiltin'))
                            oid = l['obj'].get('id')
                            if isnew and n.get('Tok') == ':=':
                                fresh_locals.add(oid)
                            elif oid in fresh_locals and not isnew:
                                fresh_locals.discard(oid); fresh_locals.add(('not', oid))
                for kk, v in n.items():
                    if kk not in ('obj', 'sel', 'implicit') and isinstance(v, (dict, list)): scan(v)
        if d is not None and d.get('Body'):
            scan(d['Body'])
        def walk(n):
            if isinstance(n, list):
                for x in n: walk(x)
                return
            if not isinstance(n, dict):
                return
            k = n.get('_')
            targets = []
            if k == 'AssignStmt': targets = n['Lhs']
            elif k == 'IncDecStmt': targets = [n['X']]
            for t in targets:
                while t['_'] == 'ParenExpr': t = t['X']
                b = t
                while b['_'] in ('IndexExpr', 'SelectorExpr', 'StarExpr', 'ParenExpr') and not (b['_'] == 'SelectorExpr' and b.get('sel') is None):
                    xk = self.tt.kind(b['X']['t']) if b['X'].get('t') is not None else None
                    if b['_'] == 'SelectorExpr' and xk == 'ptr':
                        bx = b['X']
                        if bx['_'] == 'Ident' and bx.get('obj') and bx['obj'].get('id') in fresh_locals and ('not', bx['obj'].get('id')) not in fresh_locals:
                            break                 # a field of an object this function allocated
                        out.add(b['Sel']['Name']); break
                    if b['_'] == 'IndexExpr' and xk in ('slice', 'ptr', 'map'):
                        # an element of a slice/map held in a field or reached through a pointer; locals' own arrays may alias too
                        out.add('elems'); break
                    if b['_'] == 'StarExpr':
                        out.add('*'); break
                    b = b['X']
            if k == 'CallExpr':                      # what the callee's own callees declare
                k2, _ = self.callee_key_static(n['Fun'])
                c2 = None
                if k2:
                    for pref in ('', 'natives:', 'goroot:'):
                        c2 = c2 or self.contracts.get(pref + k2) or self.externs.get(pref + k2)
                if c2 is not None:
                    for cl in c2.get('assigns'):
                        for tg in speclang.split_top(cl.text, ','):
                            tg = tg.strip()
                            m = re.search(r'\.(\w+)$', tg)
                            if m: out.add(m.group(1))
                            elif tg.startswith(('deref(', '*')):
                                if not any(a['_'] == 'UnaryExpr' and a.get('Op') == '&' and a['X']['_'] == 'Ident' for a in n.get('Args', []) or []):
                                    out.add('*')          # (the address of one of the function's own variables is not part of its frame)
                            elif tg.startswith(('elems(', 'arr(')): out.add('elems')
            for kk, v in n.items():
                if kk in ('obj', 'sel', 'implicit'): continue
                if isinstance(v, (dict, list)): walk(v)
        if d is not None and d.get('Body'):
            walk(d['Body'])
        cache[key] = out
        return out

    def check_frame_declared(self, c, key):
        w = self.callee_writes(key)
        if not w or os.environ.get('GVC_SELFTEST_NOFRAME'):
            return
        decl = ' '.join(cl.text for cl in c.get('assigns'))
        if decl.strip() == 'nothing':
            return          # declared: whatever the body writes belongs to objects it allocates itself
        missing = []
        for f in sorted(w):
            if f == 'elems':
                ok = 'elems(' in decl or 'arr(' in decl or 'deref(' in decl or bool(c.get('assigns'))
            elif f == '*':
                ok = 'deref(' in decl or '*' in decl
            else:
                ok = re.search(r'\.%s\b' % re.escape(f), decl) is not None or 'deref(' in decl
            if not ok:
                missing.append(f)
        if missing:
            raise Unsupported('callee %s writes %s but its contract has no matching assigns clause (frame not declared)' % (key, ', '.join(missing)))

    def apply_contract(self, st, c, key, recv, argv, e, assumed, havoc_oids=(), havoc_ghosts=()):
        line = e.get('line')
        if assumed:
            self.assumed.add(key)
        elif not havoc_oids:
            self.check_frame_declared(c, key)
        sig = self.callee_signature(key, c)
        binds = {}
        rtypes = []
        tid = e.get('t')
        if tid is not None and tid >= 0:
            rtypes = self.tt[tid]['es'] if self.tt.kind(tid) == 'tuple' else [tid]
        if sig is not None:
            rcv, ps, rs = sig
            if rcv is not None and recv is not None:
                binds[rcv[0]] = self.adjust_recv(st, recv, rcv[1])
            for (pn, pt, _), v in zip(ps, argv):
                binds[pn] = v
            rnames = [r[0] for r in rs]
            rn = c.get('results')
            if rn:                         # unnamed results named by the contract
                rnames = rn[0].text.replace(',', ' ').split()
        else:
            hdr = c.get('param')
            pnames = hdr[0].text.replace(',', ' ').split() if hdr else []
            if recv is not None and pnames:
                binds[pnames[0]] = recv[0]; pnames = pnames[1:]
            for pn, v in zip(pnames, argv):
                binds[pn] = v
            rn = c.get('results') or c.get('returns_struct')
            rnames = rn[0].text.replace(',', ' ').split() if rn else (['result'] if len(rtypes) == 1 else ['result%d' % i for i in range(len(rtypes))])
        old = st.clone()
        env_pre = SpecEnv(st, binds, old)
        for ci, cl in enumerate(c.get('requires')):
            # (one obligation per requires clause: with one shared name the de-duplication of obligations kept only the first)
            self.oblige(st, 'pre%s@call %s@%s' % ('' if ci == 0 else '#%d' % (ci + 1), key.split('/')[-1], line), self.sev_bool(env_pre, cl.expr), src=line)
        pcs = [self.sev_bool(env_pre, cl.expr) for cl in c.get('panics_if')]
        if pcs:
            pc = z3.Or(pcs) if len(pcs) > 1 else pcs[0]
            if self.fork(st, pc):
                raise PanicEx('callee %s panics' % key)
        pos = [self.sev_bool(env_pre, cl.expr) for cl in c.get('panics_only_if')]
        if pos:
            may = fresh('maypanic', B)
            if self.fork(st, may):
                st.assume(z3.Or(pos) if len(pos) > 1 else pos[0])
                raise PanicEx('callee %s may panic' % key)
        self.bump_top(st)             # the callee may allocate
        for g in havoc_ghosts:        # ghost heaps written by the `after` clauses of a literal called through its contract
            self.ghost_read(st, g, z3.IntVal(0))
            st.ghost[('gheap', g)] = fresh('hvG_' + g, st.ghost[('gheap', g)].sort())
        # a function literal handed to the callee may be run by it any number of times: the variables of the caller that
        # the literal's body assigns are unknown afterwards
        lit_oids = set()
        for a in (e.get('Args') or []):
            an = a
            while an.get('_') == 'ParenExpr': an = an['X']
            if an.get('_') == 'FuncLit':
                vs, fs, calls = set(), set(), []
                self.assigned_in(an.get('Body'), vs, fs, calls)
                lit_oids |= {o for o in vs if o in st.env}
        if lit_oids:
            havoc_oids = sorted(set(havoc_oids) | lit_oids, key=str)
        if havoc_oids and self.frame and self.frame.contract and not lit_oids:
            for cl in self.frame.contract.get('after'):
                for g in re.findall(r'\bghost\s+(\w+)\s*\(', cl.text):
                    cur = self.ghost_read(st, g, z3.IntVal(0))
                    arr = st.ghost[('gheap', g)]
                    st.ghost[('gheap', g)] = fresh('hvG_' + g, arr.sort())
        for oid in havoc_oids:        # captured variables a recursive closure call assigns
            tid = self.frame.objtypes.get(oid)
            if oid in st.env and tid is not None:
                nv = self.lay.fresh(tid, 'cv%s' % oid)
                for w in self.lay.wf(nv, tid): st.assume(w)
                self.bound_value(st, nv, tid)
                bx = st.meta.get('boxed')
                if bx and oid in bx:
                    self.store_ptr(st, bx[oid], nv)
                else:
                    st.env[oid] = nv
        # havoc what the callee assigns
        st.meta['replaced'] = []
        for cl in c.get('assigns'):
            for target in speclang.split_top(cl.text, ','):
                target = target.strip()
                if target and target != 'nothing':
                    self.havoc_target(st, SpecEnv(st, binds, old), speclang.parse_expr(target))
        repl = st.meta.pop('replaced', [])
        if repl:
            # the arrays of slice arguments whose elements the callee assigns: the postconditions talk about the new
            # contents (the parameter names are re-bound), and an argument that lives in a field is stored back
            ids = {o.get_id(): n for o, n in repl}
            def fixv(v):
                if isinstance(v, SliceV) and any(a.get_id() in ids for a in v.arrs):
                    return SliceV([ids.get(a.get_id(), a) for a in v.arrs], v.off, v.len, v.cap, v.etid, v.isnil)
                return v
            newbinds = {k: fixv(v) for k, v in binds.items()}
            pnames = [pn for (pn, pt, _) in sig[1]] if sig is not None else []
            for pn, an in zip(pnames, e.get('Args') or []):
                if pn in binds and newbinds[pn] is not binds[pn]:
                    ax = an
                    while ax.get('_') == 'ParenExpr': ax = ax['X']
                    if ax.get('_') == 'SelectorExpr' and ax.get('sel') is not None:
                        self.assign_to(st, ax, newbinds[pn])
            binds_post = newbinds
        else:
            binds_post = binds
        results = [self.lay.fresh(t, 'r.%s' % (key.split('.')[-1])) for t in rtypes]
        for r, t in zip(results, rtypes):
            for w in self.lay.wf(r, t):
                st.assume(w)
            self.bound_value(st, r, t)
        rb = dict(binds_post)
        for n, r in zip(rnames, results):
            rb[n] = r
        if len(results) == 1:
            rb['result'] = results[0]
        env_post = SpecEnv(st, rb, old)
        env_post.binds_old = binds
        env_post.assume_mode = True
        for cl in c.get('ghost'):
            self.ghost_assign(st, env_post, cl)
            if not assumed:
                # a function under contract initialises its ghost state with this clause when it is verified; for its
                # caller the final value is whatever the postconditions say about it
                m = re.match(r'(\w+)\s*=', cl.text)
                if m and ('ghostvar', m.group(1)) in st.ghost:
                    self.havoc_target(st, env_post, ('id', m.group(1)))
        for cl in c.get('ensures'):
            try:
                _a = self.sev_bool(env_post, cl.expr)
                if os.environ.get('GVC_DEBUG') and 'Dce' in key: print('ASSUME at call of %s: %s => %s' % (key, cl.text, _a))
                st.assume(_a)
            except Unsupported as ex:
                if 'unknown name' in str(ex):
                    if os.environ.get('GVC_DEBUG'): print('DROPPED at call of %s: %s (%s)' % (key, cl.text, ex))
                    continue          # a clause about the callee's locals: not visible to callers
                raise
        self.after_call_hooks(st, key, rb, old, e)
        if len(results) == 1:
            return results[0]
        return TupleV(results)

    def crash_points(self, st, key, e):
        """`crashinv P`: P is asserted after every external call of the function (a crash may happen there)"""
        if not self.frame or not self.frame.contract:
            return
        for cl in self.frame.contract.get('crashinv'):
            try:
                g = self.sev_bool(SpecEnv(st, {}, st.entry), cl.expr)
            except Unsupported as ex:
                if 'unknown name' in str(ex):
                    continue          # a local named by the invariant is not in scope yet
                raise
            self.oblige(st, 'crashinv after %s@%s' % (key.split('/')[-1], e.get('line')), g, src=e.get('line'))

    def after_call_hooks(self, st, key, binds, old, e):
        self.crash_points(st, key, e)
        """`after <callee>: use <lemma>(args)` / `after <callee>: assume-split ...` clauses of the function under verification."""
        if not self.frame or not self.frame.contract:
            return
        for cl in self.frame.contract.get('after'):
            m = re.match(r'(\S+?)\s*:\s*(.*)$', cl.text, re.S)
            if not m or not (key == m.group(1) or key.endswith('.' + m.group(1)) or key.endswith('/' + m.group(1))):
                continue
            self.run_hint(st, SpecEnv(st, binds, old), m.group(2), cl)

    def run_hint(self, st, env, text, cl):
        text = text.strip()
        m = re.match(r'(.*)\s+if\s+(.*)$', text, re.S)
        if m and not text.startswith('assert') and text.count('(') >= 1 and m.group(1).count('(') == m.group(1).count(')'):
            g = self.sev_bool(env, speclang.parse_expr(m.group(2)))
            st.guards.append(g)
            try:
                self.run_hint(st, env, m.group(1), cl)
            finally:
                st.guards.pop()
            return
        m = re.match(r'use\s+(\w+)\s*\((.*)\)\s*$', text, re.S)
        if m:
            self.use_lemma(st, env, m.group(1), [speclang.parse_expr(a) for a in speclang.split_top(m.group(2), ',') if a.strip()], cl)
            return
        m = re.match(r'unfold\s+(\w+)\s*\((.*)\)\s*$', text, re.S)
        if m:
            name = m.group(1)
            p = self.spec.pures[name]
            argv = [self.sev(env, speclang.parse_expr(a)) for a in speclang.split_top(m.group(2), ',') if a.strip()]
            lhs = self.spec_pure(env, name, argv)
            binds = {pn: v for (pn, pt), v in zip(p['params'], argv)}
            rhs = self.sev(SpecEnv(env.st, binds, env.old), p['body'].expr)
            st.assume(self.equal(st, lhs, rhs))
            return
        m = re.match(r'split\s*\((.*)\)\s*$', text, re.S)
        if m:
            self.use_seq = True
            a = [self.sev(env, speclang.parse_expr(x)) for x in speclang.split_top(m.group(1), ',')]
            x = a[0]
            l, k, h = [z3.simplify(x.off + t) for t in a[1:4]]
            st.assume(split_fact(x.arr, l, k, h))
            for (p, q) in ((l, k), (k, h), (l, h)):
                for f in sl_facts(x.arr, p, q):
                    st.assume(f)
            return
        m = re.match(r'ext\s*\((.*)\)\s*$', text, re.S)
        if m:      # extensionality of the sequence abstraction: equal elements => equal sequences (premise is an obligation)
            self.use_seq = True
            x, y = [self.sev(env, speclang.parse_expr(a)) for a in speclang.split_top(m.group(1), ',')]
            k = fresh('k!ext')
            prem = z3.And(x.len == y.len, z3.ForAll([k], z3.Implies(z3.And(0 <= k, k < x.len), z3.Select(x.arr, x.off + k) == z3.Select(y.arr, y.off + k))))
            self.oblige(st, 'ext-pre@%s:%d' % (cl.file.split('/')[-1], cl.line), prem)
            st.assume(sl(x.arr, x.off, x.off + x.len) == sl(y.arr, y.off, y.off + y.len))
            return
        m = re.match(r'ghost\s+(.*)$', text, re.S)
        if m:
            self.ghost_assign(st, env, speclang.Clause('ghost', m.group(1), cl.line, cl.file))
            return
        m = re.match(r'assert\s+(.*)$', text, re.S)
        if m:
            g = self.sev_bool(env, speclang.parse_expr(m.group(1)))
            self.oblige(st, 'hint-assert@%s:%d' % (cl.file.split('/')[-1], cl.line), g)
            st.assume(g)
            return
        raise Unsupported('hint %r' % text)

    def use_lemma(self, st, env, name, args, cl):
        lem = self.spec.lemmas.get(name)
        if lem is None:
            raise Unsupported('unknown lemma %s' % name)
        params = speclang.parse_params(lem.header)
        vals = [self.sev(env, a) for a in args]
        binds = {pn: v for (pn, pt), v in zip(params, vals)}
        lenv = SpecEnv(st, binds, None)
        for r in lem.get('requires'):
            self.oblige(st, 'lemma-pre %s@%s:%d' % (name, cl.file.split('/')[-1], cl.line), self.sev_bool(lenv, r.expr))
        for en in lem.get('ensures'):
            st.assume(self.sev_bool(lenv, en.expr))
        self.used_lemmas = getattr(self, 'used_lemmas', set()) | {name}

    def ghost_assign(self, st, env, cl):
        m = re.match(r'(\w+)\s*\((.*?)\)\s*=\s*(.*)$', cl.text, re.S)
        if m:
            g, target, rhs = m.groups()
            x = self.sev(env, speclang.parse_expr(target))
            v = self.sev(env, speclang.parse_expr(rhs))
            self.ghost_write(st, g, x, v)
            return
        m = re.match(r'(\w+)\s*=\s*(.*)$', cl.text, re.S)
        if m:
            st.ghost[('ghostvar', m.group(1))] = self.sev(env, speclang.parse_expr(m.group(2)))
            return
        raise Unsupported('ghost clause %r' % cl.text)

    def havoc_target(self, st, env, target):
        if target[0] == 'call' and target[1] == ('id', 'heap'):    # heap(T.f): field f of every object of (a type named like) T
            a = target[2][0]
            if a[0] != 'sel' or a[1][0] != 'id':
                raise Unsupported('assigns heap(T.f): expected a type name and a field')
            tshort, fname = a[1][1], a[2]
            hit = False
            for tid in range(len(self.tt.t)):
                if self.tt.kind(tid) != 'struct': continue
                tn = self.tt.name(tid)
                base = re.split(r'[./]', tn.split('[')[0])[-1]
                if base != tshort: continue
                for f in self.tt.fields(tid):
                    if f['n'] == fname:
                        for i, srt in enumerate(self.lay.sorts(f['t'])):
                            st.heap[(tn, fname, i)] = fresh('hvH_%s' % fname, z3.ArraySort(I, srt))
                            st.meta['afacts'] = tuple(st.meta.get('afacts', ())) + tuple(self.bound_heap_comp(st, st.heap[(tn, fname, i)], tn, fname, i))
                        hit = True
            if not hit:
                raise Unsupported('assigns heap(%s.%s): no such field in the type table' % (tshort, fname))
            return
        if target[0] == 'id' and ('ghostvar', target[1]) in st.ghost:
            cur = st.ghost[('ghostvar', target[1])]
            if isinstance(cur, SeqV):
                st.ghost[('ghostvar', target[1])] = SeqV(fresh('hv.' + target[1], ByteSeq))
            elif isinstance(cur, z3.ExprRef):
                st.ghost[('ghostvar', target[1])] = fresh('hv.' + target[1], cur.sort())
            else:
                raise Unsupported('havoc of ghost variable %s' % target[1])
            return
        if target[0] == 'sel':
            x = self.sev(env, target[1])
            if isinstance(x, StructV) and target[1][0] == 'id' and target[1][1] in st.names:
                oid = st.names[target[1][1]]
                bx = st.meta.get('boxed') or {}
                if oid in bx:
                    x = bx[oid]
                else:                                    # a field of a local struct variable
                    for f in self.tt.fields(x.tid):
                        if f['n'] == target[2]:
                            v = self.lay.fresh(f['t'], 'hv.' + f['n'])
                            for w in self.lay.wf(v, f['t']): st.assume(w)
                            self.bound_value(st, v, f['t'])
                            nf = dict(x.fields); nf[f['n']] = v
                            st.env[oid] = StructV(x.tid, nf)
                            return
            if isinstance(x, PtrV):
                tid = x.etid
                for f in self.tt.fields(tid):
                    if f['n'] == target[2]:
                        v = self.lay.fresh(f['t'], 'hv.' + f['n'])
                        for w in self.lay.wf(v, f['t']): st.assume(w)
                        self.bound_value(st, v, f['t'])
                        self.store_field(st, x, self.tt.name(tid), f['n'], f['t'], v)
                        return
        if target[0] == 'call' and target[1] == ('id', 'elems'):   # elems(s): contents of the slice's backing array
            x = self.sev(env, target[2][0])
            self.havoc_elems(st, x)
            return
        if target[0] == 'call' and target[1][0] == 'id':      # ghost heap cell: out(w)
            g = target[1][1]
            x = self.sev(env, target[2][0])
            cur = self.ghost_read(st, g, x)
            nv = fresh('hv.' + g, cur.term.sort() if isinstance(cur, SeqV) else cur.sort())
            self.ghost_write(st, g, x, SeqV(nv) if isinstance(cur, SeqV) else nv)
            return
        if target[0] == 'un' and target[1] == '*' or (target[0] == 'call' and target[1] == ('id', 'deref')):
            x = self.sev(env, target[2][0] if target[0] == 'call' else target[2])
            if isinstance(x, IfaceV) and isinstance(x.concrete, PtrV):
                x = x.concrete
            if not isinstance(x, PtrV):
                raise Unsupported('assigns deref(...) of a value that is not a known pointer')
            v = self.lay.fresh(x.etid, 'hv.deref')
            for w in self.lay.wf(v, x.etid): st.assume(w)
            self.bound_value(st, v, x.etid)
            self.store_ptr(st, x, v)
            return
        if target[0] == 'id' and target[1] not in st.names and target[1] not in env.binds:
            return          # a ghost variable this function never set up: nothing to forget
        raise Unsupported('assigns target %r' % (target,))

    def havoc_elems(self, st, x):
        """the cells of x's backing array inside [off, off+len) get arbitrary values; every alias sees them."""
        old = x.arrs
        new = [fresh('hv.arr', a.sort()) for a in old]
        k = fresh('k!hv')
        for o, n in zip(old, new):
            st.assume(z3.ForAll([k], z3.Implies(z3.Or(k < x.off, k >= x.off + x.len), z3.Select(n, k) == z3.Select(o, k))))
        self.replace_arrays(st, old, new)

    def replace_arrays(self, st, old, new):
        """array update visible through every alias: substitute in all slices of the state."""
        ids = {o.get_id(): n for o, n in zip(old, new)}
        if 'replaced' in st.meta:
            st.meta['replaced'] = list(st.meta['replaced']) + list(zip(old, new))
        def fix(v):
            if isinstance(v, SliceV):
                v2 = SliceV([ids.get(a.get_id(), a) for a in v.arrs], v.off, v.len, v.cap, v.etid, v.isnil)
                return v2
            if isinstance(v, StructV):
                return StructV(v.tid, {k: fix(x) for k, x in v.fields.items()})
            return v
        for k in list(st.env):
            st.env[k] = fix(st.env[k])
        pairs = list(zip(old, new))
        for hk in list(st.heap):
            a = st.heap[hk]
            if z3.is_array(z3.Select(a, 0)):
                st.heap[hk] = z3.substitute(a, *pairs)

    def adjust_recv(self, st, recv, want_tid):
        v, have_tid = recv
        if want_tid is None:
            return v
        wk = self.tt.kind(want_tid)
        if wk == 'ptr' and not isinstance(v, PtrV):
            x = getattr(self, '_recv_expr', None)      # x.M() with M on *T and x an addressable T: (&x).M()
            if x is not None and x['_'] == 'Ident':
                return self.addr_of(st, x)
            raise Unsupported('implicit address-of receiver')
        if wk != 'ptr' and isinstance(v, PtrV) and self.tt.kind(have_tid) == 'ptr':
            return self.load_ptr(st, v)
        return v

    # -- inlining ----------------------------------------------------------------------------------
    def inline_call(self, st, key, recv, argv, e):
        d = self.funcs[key]
        self.inlined.add(key)
        sig = self.callee_signature(key, None)
        rcv, ps, rs = sig
        saved_names = dict(st.names)
        saved_results = dict(st.results)
        saved_defers = st.defers
        st.defers = []
        if rcv is not None and recv is not None:
            fld = d['Recv']['List'][0]
            if fld.get('Names'):
                oid = fld['Names'][0]['obj']['id']
                st.env[oid] = copyval(self.adjust_recv(st, recv, rcv[1])); st.names[rcv[0]] = oid
        variadic = False
        plist = (d['Type'].get('Params') or {}).get('List', []) or []
        if False:
            variadic = True
        if variadic:
            nfix = len(ps) - 1
            rest = argv[nfix:]
            etid = self.tt[ps[-1][1]]['e']
            es = self.lay.sorts(etid)
            arrs = [fresh('va.arr', z3.ArraySort(I, s)) for s in es]
            for i, v in enumerate(rest):
                for a, t in zip(arrs, self.lay.flatten(v, etid)):
                    st.assume(z3.Select(a, i) == t)
            argv = argv[:nfix] + [SliceV(arrs, z3.IntVal(0), z3.IntVal(len(rest)), z3.IntVal(len(rest)), etid, z3.BoolVal(len(rest) == 0))]
        for (pn, pt, oid), v in zip(ps, argv):
            if oid is not None:
                st.env[oid] = copyval(v); st.names[pn] = oid
        st.results = {}
        for (rn, rt, oid) in rs:
            if oid is not None:
                st.env[oid] = self.lay.zero(rt); st.names[rn] = oid; st.results[rn] = oid
        self.rtype_stack = getattr(self, 'rtype_stack', []) + [[rt for (_, rt, _) in rs]]
        try:
            try:
                self.block(st, d['Body'].get('List', []) or [])
                vals = [st.env[oid] for (_, _, oid) in rs if oid is not None]
            except ReturnEx as r:
                vals = r.vals
        finally:
            self.rtype_stack.pop()
            st.names = saved_names
            st.results = saved_results
            st.defers = saved_defers
        if len(vals) == 1:
            return vals[0]
        return TupleV(vals)

    def call_literal(self, st, fv, argv, e):
        lit = fv.lit
        saved_names = dict(st.names)
        saved_results = dict(st.results)
        plist = (lit['Type'].get('Params') or {}).get('List', []) or []
        i = 0
        for fld in plist:
            for n in fld.get('Names') or []:
                st.env[n['obj']['id']] = copyval(argv[i]); st.names[n['Name']] = n['obj']['id']; i += 1
        st.results = {}
        rs = []
        for fld in (lit['Type'].get('Results') or {}).get('List', []) or []:
            for n in fld.get('Names') or []:
                st.env[n['obj']['id']] = self.lay.zero(fld['Type']['t']); st.results[n['Name']] = n['obj']['id']; rs.append(n['obj']['id'])
        lrts = [fld['Type'].get('t') for fld in (lit['Type'].get('Results') or {}).get('List', []) or [] for _ in (fld.get('Names') or [None])]
        self.rtype_stack = getattr(self, 'rtype_stack', []) + [lrts]
        try:
            try:
                self.block(st, lit['Body'].get('List', []) or [])
                vals = [st.env[o] for o in rs]
            except ReturnEx as r:
                vals = r.vals
        finally:
            self.rtype_stack.pop()
            st.names = saved_names
            st.results = saved_results
        return vals[0] if len(vals) == 1 else TupleV(vals)

    def call_opaque(self, st, fv, args, e):
        """call through a function value: the callee is unknown.  `oncall <name>: assert P(a0, a1, ...)` clauses of the
        function under verification state what must hold of the arguments; results are arbitrary; tracked state is
        assumed untouched (listed assumption)."""
        f = e['Fun']
        nm = f['Sel']['Name'] if f['_'] == 'SelectorExpr' else (f.get('Name') or '?')
        argv = [self.ev(st, a) for a in args]
        binds = {'a%d' % i: v for i, v in enumerate(argv)}
        matched = False
        if self.frame and self.frame.contract:
            for cl in self.frame.contract.get('oncall'):
                m = re.match(r'(\w+)\s*:\s*self\s*$', cl.text)
                if m and m.group(1) == nm:
                    # `oncall f: self` -- f is the variable holding the function literal under verification: the call is a
                    # recursive one and is replaced by the literal's own contract (partial correctness); the captured
                    # variables the body assigns are havocked
                    decl = self.frame.decl
                    vs, fs, calls = set(), set(), []
                    self.assigned_in(decl.get('Body'), vs, fs, calls)
                    cap = {o['id'] for o in decl.get('captured', []) or []}
                    self.funcs.setdefault(self.frame.key, decl)
                    return self.apply_contract(st, self.frame.contract, self.frame.key, None, argv, e, assumed=True, havoc_oids=sorted(vs & cap))
            for cl in self.frame.contract.get('oncall'):
                m = re.match(r'(\w+)\s*:\s*contract\s+(\S+)\s*$', cl.text)
                if m and m.group(1) == nm:
                    # `oncall f: contract <func>#lit<n>`: f holds that function literal of the function under verification;
                    # the call is replaced by the literal's contract (it is verified on its own); the captured variables
                    # and ghost heaps its body assigns are havocked
                    lk = m.group(2)
                    lc = self.contracts.get(lk)
                    ldecl = self.lit_region(lk) if hasattr(self, 'lit_region') else None
                    if lc is None or ldecl is None:
                        raise Unsupported('oncall %s: no contract / literal %s' % (nm, lk))
                    vs, fs, calls = set(), set(), []
                    self.assigned_in(ldecl.get('Body'), vs, fs, calls)
                    cap = {o['id'] for o in ldecl.get('captured', []) or []}
                    self.funcs.setdefault(lk, ldecl)
                    saved = self.frame.contract
                    try:
                        # ghost heaps written by the literal's `after` clauses
                        # (havocked inside apply_contract, after the literal's preconditions were checked in the state of
                        # the call: they may speak about the ghost heap)
                        gh = []
                        for cl2 in lc.get('after'):
                            gh += re.findall(r'\bghost\s+(\w+)\s*\(', cl2.text)
                        return self.apply_contract(st, lc, lk, None, argv, e, assumed=False, havoc_oids=sorted(vs & cap), havoc_ghosts=gh)
                    finally:
                        self.frame.contract = saved
            for cl in self.frame.contract.get('oncall'):
                m = re.match(r'(\w+)\s*:\s*(.*)$', cl.text, re.S)
                if m and m.group(1) == nm:
                    matched = True
                    if m.group(2).strip() != 'maypanic' and not m.group(2).strip().startswith(('returns ', 'then ')):
                        self.run_hint(st, SpecEnv(st, binds, st.entry), m.group(2), cl)
        maypanic = False
        if self.frame and self.frame.contract:
            for cl in self.frame.contract.get('oncall'):
                m = re.match(r'(\w+)\s*:\s*maypanic\s*$', cl.text)
                if m and m.group(1) == nm:
                    maypanic = True
        if not matched:
            raise Unsupported('call through function value %s @%s without an oncall clause' % (nm, e.get('line')))
        if maypanic and self.fork(st, fresh('cbpanics', B)):
            raise PanicEx('callback %s panics' % nm)
        self.assumed.add('callback %s does not modify tracked state' % nm)
        tid = e.get('t')
        rtypes = []
        if tid is not None and tid >= 0:
            rtypes = self.tt[tid]['es'] if self.tt.kind(tid) == 'tuple' else [tid]
        self.bump_top(st)
        results = [self.lay.fresh(t, 'cb') for t in rtypes]
        for r, t in zip(results, rtypes):
            for w in self.lay.wf(r, t): st.assume(w)
            self.bound_value(st, r, t)
        if self.frame and self.frame.contract:
            # `oncall f: returns P(a0.., r0..)`: an ASSUMPTION about what the callback returns (listed in evidence)
            rb = dict(binds)
            for i, r in enumerate(results): rb['r%d' % i] = r
            for cl in self.frame.contract.get('oncall'):
                m = re.match(r'(\w+)\s*:\s*returns\s+(.*)$', cl.text, re.S)
                if m and m.group(1) == nm:
                    st.assume(self.sev_bool(SpecEnv(st, rb, st.entry), speclang.parse_expr(m.group(2))))
                    self.assumed.add('callback %s returns: %s' % (nm, m.group(2).strip()))
            for cl in self.frame.contract.get('oncall'):
                m = re.match(r'(\w+)\s*:\s*then\s+(.*)$', cl.text, re.S)      # a hint run after the call, results bound to r0, r1, ...
                if m and m.group(1) == nm:
                    self.run_hint(st, SpecEnv(st, rb, st.entry), m.group(2), cl)
        return results[0] if len(results) == 1 else TupleV(results)

    # -- conversions ------------------------------------------------------------------------------
    def convert(self, st, v, from_tid, to_tid, line, argnode=None):
        tk = self.tt.kind(to_tid)
        ii_to = self.tt.intinfo(to_tid)
        ii_from = self.tt.intinfo(from_tid) if from_tid is not None else None
        if ii_to and ii_from is not None and isinstance(v, z3.ExprRef) and not z3.is_fp(v):
            if self.mode == 'bv' and z3.is_bv(v):
                wt, wf = ii_to[0] or 64, v.size()
                if wt == wf: return v
                if wt < wf: return z3.Extract(wt - 1, 0, v)
                return z3.SignExt(wt - wf, v) if ii_from[1] else z3.ZeroExt(wt - wf, v)
            wt, st_ = ii_to
            wf, sf = ii_from
            if not wt:
                return v
            lo_f, hi_f = ((-(1 << (wf - 1)), (1 << (wf - 1)) - 1) if sf else (0, (1 << wf) - 1)) if wf else (None, None)
            lo_t, hi_t = (-(1 << (wt - 1)), (1 << (wt - 1)) - 1) if st_ else (0, (1 << wt) - 1)
            if wf and lo_f >= lo_t and hi_f <= hi_t:
                return v
            if self.fits(st, v, wt, st_):
                return v            # the value is in range of the target type on this path: no wrap-around term
            if st_:
                return (v + (1 << (wt - 1))) % (1 << wt) - (1 << (wt - 1))
            return v % (1 << wt)
        if self.tt.is_string(to_tid):
            if isinstance(v, StrV): return v
            if isinstance(v, SliceV):     # string(bytes): fresh immutable copy
                arr = fresh('str.arr', ArrII); k = fresh('k!s')
                st.assume(z3.ForAll([k], z3.Implies(z3.And(0 <= k, k < v.len), z3.Select(arr, k) == z3.Select(v.arr, v.off + k))))
                r = StrV(arr, z3.IntVal(0), v.len)
                r.of_bytes = v
                return r
            if isinstance(v, z3.ExprRef) and ii_from is not None:
                raise Unsupported('string(rune) conversion @%s' % line)
        if tk == 'slice' and isinstance(v, StrV):    # []byte(s)
            self.need_lit(st, v)
            arr = fresh('bytes.arr', ArrII); k = fresh('k!b')
            st.assume(z3.ForAll([k], z3.Implies(z3.And(0 <= k, k < v.len), z3.Select(arr, k) == z3.Select(v.arr, v.off + k))))
            st.meta['fresh_arrs'] = set(st.meta.get('fresh_arrs', set())) | {arr.get_id()}
            r = SliceV([arr], z3.IntVal(0), v.len, v.len, self.tt[to_tid]['e'], z3.BoolVal(False))
            r.of_str = v
            return r
        if tk == 'iface':
            if isinstance(v, IfaceV): return v
            return self.box(st, v, from_tid)
        if tk in ('struct', 'slice', 'map', 'ptr', 'func', 'array'):
            if isinstance(v, StructV):
                return StructV(to_tid, v.fields)
            if isinstance(v, PtrV):
                return PtrV(v.ref, self.tt[to_tid]['e'])
            return v
        if self.tt.is_float(to_tid) and z3.is_fp(v):
            return z3.fpToFP(z3.RNE(), v, F32 if self.tt.basic(to_tid) == 'float32' else F64)
        if self.tt.is_float(to_tid) and ii_from is not None and isinstance(v, z3.ExprRef):
            # integer -> float: exact for <= 32-bit operands in binary64
            srt = F32 if self.tt.basic(to_tid) == 'float32' else F64
            bv = v if z3.is_bv(v) else z3.Int2BV(v, 64)
            return z3.fpSignedToFP(z3.RNE(), bv, srt) if ii_from[1] else z3.fpUnsignedToFP(z3.RNE(), bv, srt)
        if ii_to and z3.is_fp(v):
            # float -> integer.  Under GopherJS the conversion to a <= 32-bit kind is emitted as `x >> 0` / `x >>> 0`: ToInt32 /
            # ToUint32 of the double, i.e. truncation toward zero taken modulo 2^32 (ECMA-262 7.1.6); for |x| >= 2^63, NaN
            # and infinities the value is left arbitrary here (ToInt32 is still defined, but not modelled).
            w, sg = ii_to
            big = z3.fpToSBV(z3.RTZ(), v, z3.BitVecSort(64))
            inrange = z3.And(z3.Not(z3.fpIsNaN(v)), z3.Not(z3.fpIsInf(v)), z3.fpLT(v, z3.FPVal(2.0 ** 63, v.sort())), z3.fpGT(v, z3.FPVal(-(2.0 ** 63), v.sort())))
            r = fresh('f2i')
            ww = w or 64
            low = z3.Extract(ww - 1, 0, big)
            st.assume(z3.Implies(inrange, r == z3.BV2Int(low, sg)))
            lo_t, hi_t = (-(1 << (ww - 1)), (1 << (ww - 1)) - 1) if sg else (0, (1 << ww) - 1)
            st.assume(z3.And(r >= lo_t, r <= hi_t))
            if self.mode == 'bv':
                return z3.Int2BV(r, ww)
            return r
        if self.tt.is_bool(to_tid):
            return v
        raise Unsupported('conversion %s -> %s @%s' % (self.tt[from_tid]['s'] if from_tid is not None else '?', self.tt[to_tid]['s'], line))

    def box(self, st, v, tid):
        if isinstance(v, PtrV):       # an interface holding a pointer is identified with the pointer (ghost state is keyed by it)
            return IfaceV(v.ref, self.type_tag(tid) if tid is not None else z3.IntVal(-1), tid, concrete=v)
        ref = fresh('box'); st.assume(ref > 0)
        r = IfaceV(ref, self.type_tag(tid) if tid is not None else z3.IntVal(-1), tid, concrete=v)
        if isinstance(v, z3.ExprRef) and v.sort() == I:
            st.assume(unbox_int(ref) == v)
        return r

    # -- builtins ---------------------------------------------------------------------------------
    def builtin(self, st, name, args, e):
        line = e.get('line')
        if name == 'len':
            x = self.ev(st, args[0])
            if isinstance(x, (StrV, SliceV)): return self.mk_int(x.len, e.get('t'))
            if isinstance(x, ArrayV): return self.mk_int(z3.IntVal(x.n), e.get('t'))
            if isinstance(x, PtrV): return self.mk_int(z3.IntVal(self.tt[x.etid]['n']), e.get('t'))
            if isinstance(x, MapV):
                if x.size is None:
                    x.size = fresh('maplen'); st.assume(x.size >= 0)
                return x.size
            raise Unsupported('len of %r' % (x,))
        if name == 'cap':
            x = self.ev(st, args[0])
            if isinstance(x, SliceV): return self.mk_int(x.cap, e.get('t'))
            if isinstance(x, ArrayV): return self.mk_int(z3.IntVal(x.n), e.get('t'))
        if name == 'panic':
            try:
                self.ev(st, args[0])
            except Unsupported:
                pass
            raise PanicEx('panic@%s' % line)
        if name == 'make':
            tid = args[0]['t']
            k = self.tt.kind(tid)
            if k == 'slice':
                n = self.as_int(self.ev(st, args[1]))
                c = self.as_int(self.ev(st, args[2])) if len(args) > 2 else n
                self.oblige(st, 'makelen@%s' % line, z3.And(n >= 0, n <= c), src=line)
                etid = self.tt[tid]['e']
                z = self.lay.flatten(self.lay.zero(etid), etid)
                arrs = [z3.K(I, t) for t in z]
                # a fresh array: give it an identity so that later stores are distinguishable
                named = [fresh('mk.arr', a.sort()) for a in arrs]
                for nm, a in zip(named, arrs):
                    st.assume(nm == a)
                st.meta['fresh_arrs'] = set(st.meta.get('fresh_arrs', set())) | {nm.get_id() for nm in named}
                return SliceV(named, z3.IntVal(0), n, c, etid, z3.BoolVal(False))
            if k == 'map':
                m = self.lay.zero(tid); m.isnil = z3.BoolVal(False); m.size = z3.IntVal(0)
                return m
            raise Unsupported('make of %s' % self.tt[tid]['s'])
        if name == 'new':
            tid = args[0]['t']
            return self.alloc(st, self.lay.zero(tid), tid)
        if name == 'copy':
            d, s = self.ev(st, args[0]), self.ev(st, args[1])
            n = z3.If(d.len < s.len, d.len, s.len)
            self.array_copy(st, d, s, n)
            return self.mk_int(n, e.get('t'))
        if name == 'append':
            res = self.append(st, args, e)
            if self.frame and self.frame.contract and self.frame.contract.get('after'):
                # `after append: <hint>` (ghost bookkeeping at the point where an element is added; runs before the
                # result is assigned, so the old length is still visible)
                for cl in self.frame.contract.get('after'):
                    m = re.match(r'append\s*:\s*(.*)$', cl.text, re.S)
                    if m:
                        self.run_hint(st, SpecEnv(st, {}, st.entry), m.group(1), cl)
            return res
        if name == 'delete':
            m = self.ev(st, args[0]); kx = self.mapkey(st, self.ev(st, args[1]))
            m2 = MapV(z3.Store(m.dom, kx, z3.BoolVal(False)), m.vals, m.ktid, m.vtid, m.isnil)
            self.assign_to(st, args[0], m2)
            return TupleV([])
        if name in ('min', 'max'):
            a, b = self.ev(st, args[0]), self.ev(st, args[1])
            return z3.If(a <= b, a, b) if name == 'min' else z3.If(a >= b, a, b)
        raise Unsupported('builtin %s @%s' % (name, line))

    def mk_int(self, v, tid):
        if self.mode == 'bv' and tid is not None and not z3.is_bv(v):
            w, _ = self.tt.intinfo(tid) or (64, True)
            return z3.Int2BV(v, w or 64)
        return v

    def array_copy(self, st, d, s, n):
        """memmove semantics: d[0..n) = old s[0..n), all other cells unchanged; visible through aliases."""
        new = [fresh('cp.arr', a.sort()) for a in d.arrs]
        k = fresh('k!cp')
        if isinstance(s, StrV):
            srcs = [s.arr]
        else:
            srcs = s.arrs
        for nw, da, sa in zip(new, d.arrs, srcs):
            st.assume(z3.ForAll([k], z3.Select(nw, k) == z3.If(z3.And(d.off <= k, k < d.off + n), z3.Select(sa, s.off + (k - d.off)), z3.Select(da, k))))
        fa = st.meta.get('fresh_arrs', set())
        if any(a.get_id() in fa for a in d.arrs):
            st.meta['fresh_arrs'] = set(fa) | {x.get_id() for x in new}
        self.replace_arrays(st, d.arrs, new)       # (d itself is not touched: value objects may be shared with snapshots)

    def append(self, st, args, e):
        s = self.ev(st, args[0])
        etid = s.etid
        if e.get('Ellipsis'):
            t = self.ev(st, args[1])
            cnt = t.len
            src = ('slice', t)
        else:
            vals = [self.ev(st, a) for a in args[1:]]
            cnt = z3.IntVal(len(vals))
            src = ('vals', vals)
        newlen = s.len + cnt
        fits = newlen <= s.cap
        inplace = self.fork(st, fits)
        if inplace:
            arrs = s.arrs
            off, cap = s.off, s.cap
        else:
            # reallocation: fresh backing array, prefix copied, capacity at least newlen
            arrs = [fresh('app.arr', a.sort()) for a in s.arrs]
            k = fresh('k!ap')
            # (the new array is indexed like the old one -- the position of a slice inside its backing array is not
            # observable -- so that the copied prefix is the same absolute index range in both arrays and facts about
            # the old elements transfer by matching either side)
            for nw, oa in zip(arrs, s.arrs):
                body = z3.Implies(z3.And(s.off <= k, k < s.off + s.len), z3.Select(nw, k) == z3.Select(oa, k))
                from .gospec import mk_forall
                st.assume(mk_forall([k], body, [z3.Select(nw, k), z3.Select(oa, k)]))
            off = s.off; cap = fresh('app.cap'); st.assume(cap >= newlen)
            st.meta['fresh_arrs'] = set(st.meta.get('fresh_arrs', set())) | {x.get_id() for x in arrs}
        res = SliceV(arrs, off, newlen, cap, etid, z3.BoolVal(False) if not simp_bool(cnt == 0) else s.isnil)
        if src[0] == 'vals':
            new = list(res.arrs)
            for i, v in enumerate(src[1]):
                for j, t in enumerate(self.lay.flatten(v, etid)):
                    new[j] = z3.Store(new[j], off + s.len + i, t)
            if inplace:
                self.replace_arrays(st, res.arrs, new)
            else:
                fa = st.meta.get('fresh_arrs', set())
                st.meta['fresh_arrs'] = set(fa) | {x.get_id() for x in new}
            res.arrs = new
        else:
            t = src[1]
            new = [fresh('app2.arr', a.sort()) for a in res.arrs]
            k = fresh('k!ap2')
            srcs = [t.arr] if isinstance(t, StrV) else t.arrs
            for nw, oa, sa in zip(new, res.arrs, srcs):
                st.assume(z3.ForAll([k], z3.Select(nw, k) == z3.If(z3.And(off + s.len <= k, k < off + newlen), z3.Select(sa, t.off + (k - off - s.len)), z3.Select(oa, k))))
            if inplace:
                self.replace_arrays(st, res.arrs, new)
            else:
                st.meta['fresh_arrs'] = set(st.meta.get('fresh_arrs', set())) | {x.get_id() for x in new}
            res.arrs = new
        if getattr(self, 'use_seq', False) and len(res.arrs) == 1 and self.tt.intinfo(etid) and self.tt.intinfo(etid)[0] == 8:
            # byte slices seen as sequences: append is concatenation (true in the standard model of finite sequences;
            # stated here because sl() is indexed by the array term, which append changes)
            from .values import sl, cat, sbyte, sempty
            oldseq = sl(s.arrs[0], s.off, s.off + s.len)
            if src[0] == 'vals':
                add = sempty
                for v in src[1]:
                    add = sbyte(v) if add is sempty else cat(add, sbyte(v))
            else:
                t = src[1]
                add = sl(t.arr if isinstance(t, StrV) else t.arrs[0], t.off, t.off + t.len)
            newseq = sl(res.arrs[0], res.off, res.off + res.len)
            st.assume(newseq == (oldseq if add is sempty else cat(oldseq, add)))
        return res

import re
from . import speclang
