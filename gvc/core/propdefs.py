# Property definitions: which contracts, which front-ends, which assumptions.
from .props import *

TECH = 'contracts on the real source; VCs by weakest preconditions (forward symbolic execution) over the typed Go AST / ESTree; z3 + cvc5 portfolio'

def run_generic(pid, rep, spec, pf, verbose=False, only=None):
    obls = []
    cs = contracts_for(spec, pid)
    if only: cs = [c for c in cs if only in c.key]
    if cs:
        obls += run_go_functions(rep, spec, cs, verbose=verbose)
    js = contracts_for(spec, pid, 'js')
    if only: js = [c for c in js if only in c.key]
    if js:
        obls += run_js_functions(rep, spec, js, verbose=verbose)
    extra = EXTRA.get(pid)
    if extra:
        obls += extra(rep, spec, verbose=verbose, only=only)
    if not obls and not rep.undecided:
        print('property %s: no obligations were generated (vacuous check)' % pid)
        return 2
    return finish(rep, obls, pf, TECH)

def _patterns_C06(rep, spec, verbose=False, only=None):
    from . import patterns
    obls = patterns.run_patterns(rep, spec, tier=rep.tier, verbose=verbose, only=only)
    obls += patterns.run_c06_int64_float(rep, spec, verbose=verbose, only=only)
    return obls

def _patterns_C08(rep, spec, verbose=False, only=None):
    from . import patterns
    import re
    obls = patterns.run_c08(rep, spec, verbose=verbose, only=only)
    # integer division and remainder (every integer kind, variable and constant operands, compound assignment): the
    # divide-by-zero panic is part of the pattern obligations shared with C06
    obls += patterns.run_patterns(rep, spec, tier=rep.tier, verbose=verbose, only=only, which=('grid', 'compound'),
                                  select=lambda c: re.search(r'_(div|rem)_|^S_sh[lr]_\w+_by_int', c.name) is not None)       # (and shifts by counts of a signed type: the negative-count panic)
    obls += patterns.run_c08_frames(rep, spec, verbose=verbose, only=only)
    return obls

def _sites_C17(rep, spec, verbose=False, only=None):
    from . import sites, props
    return sites.run_sites(rep, spec, props, verbose=verbose, only=only)

def _patterns_C14(rep, spec, verbose=False, only=None):
    from . import patterns
    return patterns.run_c14(rep, spec, verbose=verbose, only=only)

def _patterns_C07(rep, spec, verbose=False, only=None):
    from . import patterns
    return patterns.run_c07(rep, spec, verbose=verbose, only=only)

EXTRA = {'C07': _patterns_C07, 'C06': _patterns_C06, 'C08': _patterns_C08, 'C17': _sites_C17, 'C14': _patterns_C14}
