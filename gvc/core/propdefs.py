# Property definitions: which contracts, which front-ends, which assumptions.
from .props import *

def run_C19(rep, spec, pf, verbose=False, only=None):
    cs = contracts_for(spec, 'C19')
    if only: cs = [c for c in cs if only in c.key]
    obls = run_go_functions(rep, spec, cs, verbose=verbose)
    return finish(rep, obls, pf, 'contracts on the real Go AST; WP by forward symbolic execution; z3/cvc5')

def run_C16(rep, spec, pf, verbose=False, only=None):
    cs = contracts_for(spec, 'C16')
    if only: cs = [c for c in cs if only in c.key]
    obls = run_go_functions(rep, spec, cs, verbose=verbose)
    return finish(rep, obls, pf, 'contracts on the real Go AST; WP by forward symbolic execution; z3/cvc5')

def run_C18(rep, spec, pf, verbose=False, only=None):
    cs = contracts_for(spec, 'C18')
    if only: cs = [c for c in cs if only in c.key]
    obls = run_go_functions(rep, spec, cs, verbose=verbose)
    return finish(rep, obls, pf, 'contracts on the real Go AST; WP by forward symbolic execution; z3/cvc5')

def run_C20(rep, spec, pf, verbose=False, only=None):
    cs = contracts_for(spec, 'C20')
    if only: cs = [c for c in cs if only in c.key]
    obls = run_go_functions(rep, spec, cs, verbose=verbose)
    return finish(rep, obls, pf, 'contracts on the real Go AST; WP by forward symbolic execution; z3/cvc5')
