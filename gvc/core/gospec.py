import os
import re
# Evaluation of contract expressions (speclang AST) over executor states.
import z3
from .values import *
from .gostate import *
from . import speclang

def has_var(t, _seen=None):
    seen = set() if _seen is None else _seen
    if t.get_id() in seen: return False
    seen.add(t.get_id())
    if z3.is_var(t): return True
    return any(has_var(c, seen) for c in t.children())

def select_patterns_deep(body, kq):
    """like select_patterns, but also looks inside nested quantifiers (array reads there that do not mention the inner
    bound variable are legitimate triggers of the outer quantifier)"""
    out, seen = [], set()
    def has(t):
        if t.get_id() == kq.get_id(): return True
        return any(has(c) for c in t.children())
    def go(t):
        if t.get_id() in seen: return
        seen.add(t.get_id())
        if z3.is_quantifier(t):
            go(t.body()); return
        if z3.is_select(t) and not has_var(t) and has(t.arg(1)) and not has(t.arg(0)):
            out.append(t); return
        for c in t.children(): go(c)
    go(body)
    uniq = {}
    for t in out: uniq[t.get_id()] = t
    return list(uniq.values())[:6]

def select_patterns(body, kq):
    """explicit E-matching triggers: every array read whose index mentions the bound variable (z3's own inference
    rejects triggers containing `+` and falls back to MBQI, which does not terminate on these goals)"""
    out, seen = [], set()
    def has(t):
        if t.get_id() == kq.get_id(): return True
        return any(has(c) for c in t.children())
    def go(t):
        if t.get_id() in seen: return
        seen.add(t.get_id())
        if z3.is_quantifier(t): return
        if z3.is_select(t) and has(t.arg(1)) and not has(t.arg(0)):
            out.append(t)
            return
        for c in t.children(): go(c)
    go(body)
    uniq = {}
    for t in out: uniq[t.get_id()] = t
    return list(uniq.values())[:4]

def sel_through_stores(a, idx, depth=0):
    """select(store(A, i, v), k) written as ite(k == i, v, select(A, k)) when k is symbolic: contract clauses about an array
    that was just updated then contain reads of the array before the update, which is what the facts known about it
    (invariants, callee postconditions) can be matched against"""
    if depth < 4 and z3.is_store(a) and not z3.is_int_value(z3.simplify(idx - a.arg(1))):
        return z3.If(idx == a.arg(1), a.arg(2), sel_through_stores(a.arg(0), idx, depth + 1))
    return z3.Select(a, idx)

def base_variants(pats):
    """for a trigger select(store(...store(A, ..)..), idx) also offer select(A, idx): facts about the array before the
    update then instantiate the quantifier (read-over-write is not applied by E-matching)"""
    out = list(pats or [])
    for p in list(out):
        if z3.is_select(p):
            a = p.arg(0); changed = False
            while z3.is_store(a):
                a = a.arg(0); changed = True
            if changed:
                out.append(z3.Select(a, p.arg(1)))
    uniq = {}
    for t in out: uniq[t.get_id()] = t
    return list(uniq.values())

def mk_exists(vs, body, pats):
    good = []
    for p in base_variants(pats):
        try:
            z3.Exists(vs, body, patterns=[p]); good.append(p)
        except z3.Z3Exception:
            pass
    return z3.Exists(vs, body, patterns=good) if good else z3.Exists(vs, body)

def mk_forall(vs, body, pats):
    pats = base_variants(pats)
    """ForAll with explicit triggers; triggers z3 rejects (interpreted heads, if-then-else inside) are dropped one by one"""
    good = []
    def has_ite(t, seen):
        if t.get_id() in seen: return False
        seen.add(t.get_id())
        if z3.is_app(t) and t.decl().kind() == z3.Z3_OP_ITE: return True
        return any(has_ite(c, seen) for c in t.children())
    for p in pats or []:
        if has_ite(p, set()):
            continue
        try:
            z3.ForAll(vs, body, patterns=[p]); good.append(p)
        except z3.Z3Exception:
            pass
    return z3.ForAll(vs, body, patterns=good) if good else z3.ForAll(vs, body)

def normalize_index(formula, kq):
    """If every array read that mentions the bound variable k has the index k + c for one and the same k-free term c, re-express the
    quantifier over the absolute index j = k + c: facts about a sub-slice x[a:] and goals about x then share the trigger
    select(arr, j) (matching modulo the offset arithmetic is what E-matching cannot do)."""
    sels = select_patterns(formula, kq)
    if not sels:
        return None
    offs = []
    for s in sels:
        idx = s.arg(1)
        c = z3.simplify(idx - kq)
        if contains(c, kq):
            continue                # an index that is not k + c (e.g. a map key computed from x[k]): follows the substitution
        offs.append(c)
    if not offs:
        return None
    c0 = offs[0]
    if any(not z3.eq(c0, c) for c in offs[1:]):
        return None
    if z3.is_int_value(c0) and c0.as_long() == 0:
        return None
    jq = fresh('q!j')
    f2 = z3.substitute(formula, (kq, jq - c0))
    return jq, z3.simplify(f2, som=False)

def contains(t, v):
    if t.get_id() == v.get_id(): return True
    return any(contains(c, v) for c in t.children())

class SpecEnv:
    """Name resolution for one contract evaluation: explicit bindings first, then the state's locals."""
    def __init__(self, st, binds=None, old=None, results=None, exec_=None, parent=None):
        self.st, self.binds, self.old, self.results = st, dict(binds or {}), old, results or {}
        if parent is not None:       # nested scopes (quantifiers, spec-function bodies) keep the old()-resolution of their parent
            if hasattr(parent, 'binds_old'): self.binds_old = parent.binds_old
            if getattr(parent, 'call_site', False): self.call_site = True
            if getattr(parent, 'assume_mode', False): self.assume_mode = True
            if getattr(parent, 'strict_names', False): self.strict_names = True

class SpecMixin:
    # sev: evaluate spec expression to a value in the shared value domain
    def sev(self, env, e):
        k = e[0]
        if k == 'int':
            if self.mode == 'bv' and env.binds.get('$bvw'):
                return z3.BitVecVal(e[1], env.binds['$bvw'])
            return z3.IntVal(e[1])
        if k == 'bool': return z3.BoolVal(e[1])
        if k == 'str': return strlit(e[1])
        if k == 'id': return self.spec_id(env, e[1])
        if k == 'un':
            x = self.sev(env, e[2])
            if e[1] == '!': return z3.Not(x)
            if e[1] == '-': return -x
            if e[1] == '+': return x
            if e[1] == '^': return ~x if z3.is_bv(x) else -x - 1
        if k == 'cond':
            c = self.sev(env, e[1])
            r = z3.simplify(c)
            if z3.is_true(r): return self.sev(env, e[2])
            if z3.is_false(r): return self.sev(env, e[3])
            from .goexec import ite
            return ite(c, self.sev(env, e[2]), self.sev(env, e[3]))
        if k == 'bin':
            op = e[1]
            if op == '==>':
                lhs = self.sev(env, e[2])
                if z3.is_false(z3.simplify(lhs)):
                    return z3.BoolVal(True)
                try:
                    if getattr(env, 'assume_mode', False):
                        return z3.Implies(lhs, self.sev_assume(env, e[3]))
                    return z3.Implies(lhs, self.sev(env, e[3]))
                except Unsupported as ex:
                    if 'unknown name' in str(ex):      # consequent names a local that does not exist on this path / for this caller
                        if getattr(env, 'strict_names', False):
                            raise                       # (hints: the caller skips a hint about a local that does not exist)
                        if getattr(env, 'assume_mode', False):
                            return z3.BoolVal(True)     # as an assumption (callee contract at a call site) the clause says nothing
                        return z3.Not(lhs)              # as a goal the implication can hold only vacuously
                    raise
            if op == '<==>':
                return self.sev(env, e[2]) == self.sev(env, e[3])
            if op == '&&':
                return z3.And(self.sev(env, e[2]), self.sev(env, e[3]))
            if op == '||':
                return z3.Or(self.sev(env, e[2]), self.sev(env, e[3]))
            a, b = self.sev(env, e[2]), self.sev(env, e[3])
            return self.spec_binop(env, op, a, b)
        if k == 'idx':
            x = self.sev(env, e[1]); i = self.sev(env, e[2])
            return self.spec_index(env, x, i)
        if k == 'slice':
            x = self.sev(env, e[1])
            lo = self.sev(env, e[2]) if e[2] is not None else z3.IntVal(0)
            if isinstance(x, StrV):
                hi = self.sev(env, e[3]) if e[3] is not None else x.len
                return StrV(x.arr, x.off + lo, hi - lo)
            if isinstance(x, SliceV):
                hi = self.sev(env, e[3]) if e[3] is not None else x.len
                return SliceV(x.arrs, x.off + lo, hi - lo, x.cap - lo, x.etid, x.isnil)
            raise Unsupported('spec slice of %r' % (x,))
        if k == 'sel':
            return self.spec_sel(env, e)
        if k == 'call':
            return self.spec_call(env, e)
        raise Unsupported('spec expr %r' % (e,))

    def seq_term(self, st, x):
        """abstract sequence of a string/slice view; literals become explicit concatenations of their bytes"""
        self.use_seq = True
        if isinstance(x, StrV) and x.lit is not None:
            if len(x.lit) == 0:
                return sempty
            t = sbyte(z3.IntVal(x.lit[-1]))
            for c in reversed(x.lit[:-1]):
                t = cat(sbyte(z3.IntVal(c)), t)
            return t
        parts = getattr(x, 'parts', None)
        t = sl(x.arr, x.off, x.off + x.len)
        for f in sl_facts(x.arr, x.off, x.off + x.len):
            st.pc.append(f)
        if parts is not None:
            st.pc.append(t == cat(self.seq_term(st, parts[0]), self.seq_term(st, parts[1])))
        return t

    def old_binds(self, env):
        return env.binds_old if hasattr(env, 'binds_old') else env.binds

    def spec_binop(self, env, op, a, b):
        if op in ('==', '!='):
            r = self.equal(env.st, a, b)
            return r if op == '==' else z3.Not(r)
        if isinstance(a, StrV) and op == '+':
            return self.str_concat(env.st, a, b)
        if isinstance(a, SeqV):
            raise Unsupported('spec op %s on seq' % op)
        if z3.is_bv(a) or z3.is_bv(b):
            if not z3.is_bv(a): a = z3.BitVecVal(z3.simplify(a).as_long(), b.size())
            if not z3.is_bv(b): b = z3.BitVecVal(z3.simplify(b).as_long(), a.size())
            sg = env.binds.get('$signed', False)
            tab = {'+': lambda: a + b, '-': lambda: a - b, '*': lambda: a * b, '&': lambda: a & b, '|': lambda: a | b, '^': lambda: a ^ b,
                   '&^': lambda: a & ~b, '<<': lambda: a << b, '>>': lambda: (a >> b) if sg else z3.LShR(a, b),
                   '<': lambda: (a < b) if sg else z3.ULT(a, b), '<=': lambda: (a <= b) if sg else z3.ULE(a, b),
                   '>': lambda: (a > b) if sg else z3.UGT(a, b), '>=': lambda: (a >= b) if sg else z3.UGE(a, b),
                   '/': lambda: (a / b) if sg else z3.UDiv(a, b), '%': lambda: z3.SRem(a, b) if sg else z3.URem(a, b)}
            return tab[op]()
        if z3.is_fp(a) or z3.is_fp(b):
            rm = z3.RNE()
            tab = {'+': lambda: z3.fpAdd(rm, a, b), '-': lambda: z3.fpSub(rm, a, b), '*': lambda: z3.fpMul(rm, a, b), '/': lambda: z3.fpDiv(rm, a, b),
                   '<': lambda: z3.fpLT(a, b), '<=': lambda: z3.fpLEQ(a, b), '>': lambda: z3.fpGT(a, b), '>=': lambda: z3.fpGEQ(a, b)}
            return tab[op]()
        if op == '+': return a + b
        if op == '-': return a - b
        if op == '*': return a * b
        if op == '/': return a / b          # spec-level: Euclidean/floor on non-negative operands; use tdiv() for Go's
        if op == '%': return a % b
        if op == '<': return a < b
        if op == '<=': return a <= b
        if op == '>': return a > b
        if op == '>=': return a >= b
        if op == '<<':
            bc = z3.simplify(b)
            if z3.is_int_value(bc): return a * (1 << bc.as_long())
        if op == '>>':
            bc = z3.simplify(b)
            if z3.is_int_value(bc): return a / (1 << bc.as_long())
        if op == '&':
            bc = z3.simplify(b)
            if z3.is_int_value(bc) and (bc.as_long() & (bc.as_long() + 1)) == 0: return a % (bc.as_long() + 1)
        raise Unsupported('spec operator %s' % op)

    def spec_index(self, env, x, i):
        if isinstance(x, StrV):
            self.need_lit(env.st, x)
            return z3.Select(x.arr, x.off + i)
        if isinstance(x, SliceV):
            terms = [sel_through_stores(a, x.off + i) for a in x.arrs]
            if x.etid is None:
                return terms[0]
            return self.lay.unflatten(iter(terms), x.etid)
        if isinstance(x, ArrayV):
            return self.lay.unflatten(iter([z3.Select(a, i) for a in x.arrs]), x.etid)
        if isinstance(x, MapV):
            kx = self.mapkey(env.st, i)
            return self.lay.unflatten(iter([z3.Select(a, kx) for a in x.vals]), x.vtid)
        if z3.is_array(x):
            return z3.Select(x, i)
        raise Unsupported('spec index of %r' % (x,))

    def spec_id(self, env, name):
        if name in env.binds:
            return env.binds[name]
        st = env.st
        if name in st.names and st.names[name] in st.env:
            return st.env[st.names[name]]
        if name in self.spec.consts:
            return self.sev(env, self.spec.consts[name])
        if name == 'nil':
            return IfaceV(z3.IntVal(0), z3.IntVal(0))
        if ('ghostvar', name) in st.ghost:
            return st.ghost[('ghostvar', name)]
        raise Unsupported('spec: unknown name %r (contract does not bind)' % name)

    def spec_sel_on(self, env, x, name):
        tid = x.etid
        for f in self.tt.fields(tid):
            if f['n'] == name:
                return self.load_field(env.st, x, self.tt.name(tid), name, f['t'])
        for f in self.tt.fields(tid):
            if f.get('emb'):
                inner = self.load_field(env.st, x, self.tt.name(tid), f['n'], f['t'])
                if isinstance(inner, PtrV):
                    try:
                        return self.spec_sel_on(env, inner, name)
                    except Unsupported:
                        continue
                if isinstance(inner, StructV) and name in inner.fields:
                    return inner.fields[name]
        raise Unsupported('spec: no field %s' % name)

    def spec_sel(self, env, e):
        # package-qualified constant?  else field access
        x = self.sev(env, e[1])
        name = e[2]
        if isinstance(x, PtrV):
            tid = x.etid
            for f in self.tt.fields(tid):
                if f['n'] == name:
                    return self.load_field(env.st, x, self.tt.name(tid), name, f['t'])
            for f in self.tt.fields(tid):            # promoted through an embedded struct or pointer to struct
                if f.get('emb'):
                    inner = self.load_field(env.st, x, self.tt.name(tid), f['n'], f['t'])
                    try:
                        if isinstance(inner, PtrV) and any(g['n'] == name or g.get('emb') for g in self.tt.fields(inner.etid)):
                            return self.spec_sel_on(env, inner, name)
                        if isinstance(inner, StructV) and name in inner.fields:
                            return inner.fields[name]
                    except Unsupported:
                        continue
            raise Unsupported('spec: no field %s' % name)
        if isinstance(x, StructV):
            if name in x.fields:
                return x.fields[name]
            # promoted through embedded fields
            for f in self.tt.fields(x.tid):
                if f.get('emb') and isinstance(x.fields[f['n']], StructV) and name in x.fields[f['n']].fields:
                    return x.fields[f['n']].fields[name]
        if isinstance(x, SliceV) and name in ('off', 'len', 'cap'):
            return getattr(x, name)
        raise Unsupported('spec: selector .%s on %r' % (name, x))

    def sev_assume(self, env, e):
        # a clause used as an ASSUMPTION (callee contract at a call site), at positive polarity: conjuncts that name
        # something the caller cannot see (a local of the callee) are dropped one by one -- weaker, hence sound
        if e[0] == 'bin' and e[1] == '&&':
            return z3.And(self.sev_assume(env, e[2]), self.sev_assume(env, e[3]))
        if e[0] == 'paren' :
            return self.sev_assume(env, e[1])
        try:
            return self.sev(env, e)
        except Unsupported as ex:
            if 'unknown name' in str(ex):
                if os.environ.get('GVC_DEBUG'): print('DROPPED conjunct (%s): %r' % (ex, e))
                return z3.BoolVal(True)
            raise

    def spec_call(self, env, e):
        fn, args = e[1], e[2]
        if fn[0] != 'id':
            raise Unsupported('spec: call of non-identifier')
        name = fn[1]
        if name == 'old':
            if env.old is None:
                raise Unsupported('old() without entry state')
            env2 = SpecEnv(env.old, self.old_binds(env), None, env.results)
            return self.sev(env2, args[0])
        if name == 'len':
            x = self.sev(env, args[0])
            if isinstance(x, (StrV, SliceV)): return x.len
            if isinstance(x, ArrayV): return z3.IntVal(x.n)
            if isinstance(x, SeqV): return slen(x.term)
            if isinstance(x, MapV) and x.size is not None: return x.size
            raise Unsupported('spec len of %r' % (x,))
        if name == 'cap':
            return self.sev(env, args[0]).cap
        if name == 'forall2':      # forall2(i, j, P): one quantifier over two indices with a multi-pattern (one array read per index)
            v1, v2 = args[0][1], args[1][1]
            k1, k2 = fresh('q!' + v1), fresh('q!' + v2)
            env2 = SpecEnv(env.st, dict(env.binds, **{v1: k1, v2: k2}), env.old, env.results, parent=env)
            if hasattr(env, 'binds_old'): env2.binds_old = dict(env.binds_old, **{v1: k1, v2: k2})
            body = self.sev(env2, args[2])
            for kk in (k1, k2):                  # absolute indices, as for one-variable quantifiers
                norm = normalize_index(body, kk)
                if norm is not None:
                    jq, body = norm
                    if kk is k1: k1 = jq
                    else: k2 = jq
            p1 = [t for t in select_patterns(body, k1) if not contains(t, k2)]
            p2 = [t for t in select_patterns(body, k2) if not contains(t, k1)]
            if p1 and p2:
                try:
                    return z3.ForAll([k1, k2], body, patterns=[z3.MultiPattern(p1[0], p2[0])])
                except z3.Z3Exception:
                    pass
            both = [t for t in select_patterns_deep(body, k1) + select_patterns_deep(body, k2) if contains(t, k1) and contains(t, k2)]
            for t in both:                      # one array read that mentions both indices (x[i].f[m])
                try:
                    return z3.ForAll([k1, k2], body, patterns=[t])
                except z3.Z3Exception:
                    continue
            return z3.ForAll([k1, k2], body)
        if name in ('forall', 'exists'):
            var = args[0][1]
            kq = fresh('q!' + var)
            env2 = SpecEnv(env.st, dict(env.binds, **{var: kq}), env.old, env.results, parent=env)
            if hasattr(env, 'binds_old'): env2.binds_old = dict(env.binds_old, **{var: kq})
            if len(args) == 4:
                lo, hi = self.sev(env, args[1]), self.sev(env, args[2])
                body = self.sev(env2, args[3])
                rng = z3.And(lo <= kq, kq < hi)
                if name == 'forall':
                    full = z3.Implies(rng, body)
                    norm = normalize_index(full, kq)
                    if norm is not None:
                        jq, full2 = norm
                        pats = select_patterns(full2, jq)
                        return mk_forall([jq], full2, pats)
                    pats = select_patterns(body, kq)
                    return mk_forall([kq], full, pats)
                return z3.Exists([kq], z3.And(rng, body))
            body = self.sev(env2, args[1])
            return z3.ForAll([kq], body) if name == 'forall' else z3.Exists([kq], body)
        if name == 'all':      # all(binders..., P): binder = id (Int) | seqv(id) (ByteSeq) | boolv(id)
            vs, binds = [], dict(env.binds)
            for b in args[:-1]:
                if b[0] == 'id':
                    q = fresh('q!' + b[1]); binds[b[1]] = q
                elif b[0] == 'call' and b[1] == ('id', 'bytesv'):
                    nm = b[2][0][1]
                    qa, qo, qn = fresh('q!%s.arr' % nm, ArrII), fresh('q!%s.off' % nm), fresh('q!%s.len' % nm)
                    binds[nm] = SliceV([qa], qo, qn, qn, None, z3.BoolVal(False))
                    vs += [qa, qo]
                    q = qn
                elif b[0] == 'call' and b[1] == ('id', 'seqv'):
                    self.use_seq = True
                    q = fresh('q!' + b[2][0][1], ByteSeq); binds[b[2][0][1]] = SeqV(q)
                elif b[0] == 'call' and b[1] == ('id', 'floatv'):
                    q = fresh('q!' + b[2][0][1], F64); binds[b[2][0][1]] = q
                else:
                    raise Unsupported('binder %r' % (b,))
                vs.append(q)
            env2 = SpecEnv(env.st, binds, env.old, env.results, parent=env)
            return z3.ForAll(vs, self.sev(env2, args[-1]))
        if name == 'seq':
            self.use_seq = True
            x = self.sev(env, args[0])
            if isinstance(x, (StrV, SliceV)):
                return SeqV(self.seq_term(env.st, x))
            if isinstance(x, SeqV): return x
            raise Unsupported('seq of %r' % (x,))
        if name == 'cat':
            self.use_seq = True
            vals = [self.sev(env, a) for a in args]
            t = vals[0].term
            for v in vals[1:]:
                t = cat(t, v.term)
            return SeqV(t)
        if name == 'byteseq':
            self.use_seq = True
            return SeqV(sbyte(self.sev(env, args[0])))
        if name == 'empty':
            self.use_seq = True
            return SeqV(sempty)
        if name == 'isnil':
            x = self.sev(env, args[0])
            if isinstance(x, (SliceV, MapV)): return x.isnil
            return self.refof(x) == 0
        if name == 'ite':
            from .goexec import ite
            return ite(self.sev(env, args[0]), self.sev(env, args[1]), self.sev(env, args[2]))
        if name == 'trunc':    # truncation toward zero of a real
            a = self.sev(env, args[0])
            if z3.is_real(a): return z3.If(a >= 0, z3.ToInt(a), -z3.ToInt(-a))
            return a
        if name in ('tdiv', 'tmod'):     # Go's truncated division / remainder: the shared symbols (true division inside `interpret` lemmas)
            a, b = self.sev(env, args[0]), self.sev(env, args[1])
            if getattr(self, 'interpret_prod', False) or not hasattr(self, 'tdiv'):
                q = z3.If(b > 0, z3.If(a >= 0, a / b, -((-a) / b)), z3.If(a >= 0, -(a / (-b)), (-a) / (-b)))
                return q if name == 'tdiv' else a - b * q
            return self.tdiv(env.st, a, b) if name == 'tdiv' else self.tmod(env.st, a, b)
        if name == 'abs':
            a = self.sev(env, args[0]); return z3.If(a >= 0, a, -a)
        if name == 'min':
            a, b = self.sev(env, args[0]), self.sev(env, args[1]); return z3.If(a <= b, a, b)
        if name == 'max':
            a, b = self.sev(env, args[0]), self.sev(env, args[1]); return z3.If(a >= b, a, b)
        if name == 'ghost':     # ghost(name, ref): read ghost heap
            g = args[0][1]; x = self.sev(env, args[1])
            return self.ghost_read(env.st, g, x)
        if name == 'fresharr':   # fresharr(x): backing array of x was allocated in this call
            x = self.sev(env, args[0])
            fr = env.st.meta.get('fresh_arrs', set())
            if env.st.meta.get('concrete'):
                raise Unsupported('fresharr is not observable on a concrete run')
            if getattr(env, 'assume_mode', False):     # callee contract at a call site: the result's array is a new one for the caller too
                arrs = x.arrs if isinstance(x, SliceV) else [x.arr]
                env.st.meta['fresh_arrs'] = set(fr) | {a.get_id() for a in arrs}
                return z3.BoolVal(True)
            return z3.BoolVal((x.arrs[0] if isinstance(x, SliceV) else x.arr).get_id() in fr)
        if name == 'samearr':
            x, y = self.sev(env, args[0]), self.sev(env, args[1])
            return z3.And([a == b for a, b in zip(x.arrs, y.arrs)] + [x.off == y.off]) if isinstance(x, SliceV) else z3.And(x.arr == y.arr, x.off == y.off)
        if name == 'global':     # global("pkg.Name"): current value of a package-level variable
            key = ('global', args[0][1].decode())
            if key not in env.st.ghost:
                o = getattr(self, 'global_objs', {}).get(key[1])
                if o is None:
                    raise Unsupported('spec: global %s is not used by the function' % key[1])
                return self.global_var(env.st, o)
            return env.st.ghost[key]
        if name in ('pair', 'gosyntax', 'joinid', 'sha256hex', 'strs', 'strof'):
            from . import golib
            self.use_ident = True
            vals = [self.sev(env, a) for a in args]
            if name == 'pair': return golib.pair(vals[0], vals[1])
            if name == 'gosyntax': return golib.gosyntax(vals[0])
            if name == 'joinid': return golib.joinid(vals[0])
            if name == 'sha256hex': return golib.sha256hex(vals[0])
            if name == 'strs':
                x = vals[0]
                return golib.strs_ident(x.arrs[0], x.arrs[1], x.arrs[2], x.off, x.len)
            if name == 'strof': return StrV(golib.str_arr_of(vals[0]), z3.IntVal(0), golib.str_len_of(vals[0]))
        if name == 'ghostarr':     # the whole ghost map, for frame statements such as ghostarr("fsc") == old(ghostarr("fsc"))
            g = args[0][1].decode()
            self.ghost_read(env.st, g, z3.IntVal(0))
            return env.st.ghost[('gheap', g)]
        if name == 'ref':
            return self.refof(self.sev(env, args[0]))
        if name in ('ashr', 'lshr', 'shl'):
            a, b = self.sev(env, args[0]), self.sev(env, args[1])
            if not z3.is_bv(a): raise Unsupported('%s needs bit-vector operands (mode bv)' % name)
            if not z3.is_bv(b): b = z3.BitVecVal(z3.simplify(b).as_long(), a.size())
            return (a >> b) if name == 'ashr' else (z3.LShR(a, b) if name == 'lshr' else a << b)
        if name == 'ult':
            a, b = self.sev(env, args[0]), self.sev(env, args[1]); return z3.ULT(a, b)
        if name == 'prod':     # product of two non-constant integers: the shared abstract symbol (true multiplication inside `interpret prod` lemmas)
            a, b = self.sev(env, args[0]), self.sev(env, args[1])
            if getattr(self, 'interpret_prod', False) or z3.is_int_value(z3.simplify(a)) or z3.is_int_value(z3.simplify(b)):
                return a * b
            return PROD(a, b)
        if name == 'undef':      # undef(p): optional parameter p was not passed
            return env.binds[args[0][1] + '$undef']
        if name == 'isplain':
            x = self.sev(env, args[0])
            return getattr(x, 'plain', z3.BoolVal(False))
        if name == 'freshobj':     # the array was allocated by this call
            x = self.sev(env, args[0])
            return z3.BoolVal(bool(getattr(x, 'isfresh', False)))
        if name == 'boxed':        # boxed(x): the value an interface value was made from (known when the boxing happened in this function)
            x = self.sev(env, args[0])
            if isinstance(x, IfaceV) and getattr(x, 'concrete', None) is not None:
                return x.concrete
            raise Unsupported('boxed(): the concrete value of the interface is not known here')
        if name == 'typeis':       # typeis(x, "T"): the dynamic type of the interface value x is T (as printed by go/types)
            x = self.sev(env, args[0])
            tn = args[1][1].decode() if isinstance(args[1][1], bytes) else args[1][1]
            if not isinstance(x, IfaceV):
                raise Unsupported('typeis on a value that is not an interface')
            cache = self.__dict__.setdefault('_tids_by_string', {})
            if tn not in cache:
                for tid in range(len(self.tt.t)):
                    if self.tt[tid].get('s') == tn:
                        cache[tn] = tid; break
                else:
                    # a type the code under contract never mentions: a tag of its own, different from every tag of the table
                    extra = self.__dict__.setdefault('_extra_type_tags', {})
                    extra.setdefault(tn, -1 - len(extra))
                    cache[tn] = ('extra', extra[tn])
            if x.tag is None:
                raise Unsupported('typeis: interface value without a dynamic type tag')
            tg = z3.IntVal(cache[tn][1]) if isinstance(cache[tn], tuple) else self.type_tag(cache[tn])
            return z3.And(x.ref != 0, x.tag == tg)
        if name == 'asptr':        # asptr(r, "pkg.Type"): the pointer to the object with reference r, typed *pkg.Type
            r = self.sev(env, args[0])
            tn = args[1][1].decode() if isinstance(args[1][1], bytes) else args[1][1]
            cache = self.__dict__.setdefault('_named_tids', {})
            if tn not in cache:
                for tid in range(len(self.tt.t)):
                    if self.tt.kind(tid) == 'struct' and self.tt.name(tid) == tn:
                        cache[tn] = tid; break
                else:
                    raise Unsupported('asptr: no struct type named %s in the type table' % tn)
            return PtrV(r, cache[tn])
        if name == 'newobj':       # newobj(p): the object p points to was allocated during the call
            x = self.sev(env, args[0])
            if isinstance(x, IfaceV) and isinstance(getattr(x, 'concrete', None), PtrV): x = x.concrete
            base = env.old if env.old is not None else env.st
            return x.ref >= self.cur_top(base)
        if name == 'sameobj':
            x, y = self.sev(env, args[0]), self.sev(env, args[1])
            return getattr(x, 'ident', None) == getattr(y, 'ident', None) if hasattr(x, 'ident') else z3.BoolVal(x is y)
        if name in ('isNaN', 'isInf', 'signbit', 'isZero', 'rtz', 'rtn', 'rtp', 'same', 'fpabs', 'fpneg', 'posinf', 'neginf', 'fnan', 'fpeq', 'fsqrt', 'f64'):
            vals = [self.sev(env, a) for a in args]
            if name == 'isNaN': return z3.fpIsNaN(vals[0])
            if name == 'isInf': return z3.fpIsInf(vals[0])
            if name == 'signbit': return z3.fpIsNegative(vals[0])          # sign bit set (true for -0; NaNs excluded by callers)
            if name == 'isZero': return z3.fpIsZero(vals[0])
            if name == 'rtz': return z3.fpRoundToIntegral(z3.RTZ(), vals[0])
            if name == 'rtn': return z3.fpRoundToIntegral(z3.RTN(), vals[0])
            if name == 'rtp': return z3.fpRoundToIntegral(z3.RTP(), vals[0])
            if name == 'same': return z3.Or(z3.And(z3.fpIsNaN(vals[0]), z3.fpIsNaN(vals[1])), vals[0] == vals[1])      # identical up to NaN payload
            if name == 'fpeq': return z3.fpEQ(vals[0], vals[1])
            if name == 'fpabs': return z3.fpAbs(vals[0])
            if name == 'fpneg': return z3.fpNeg(vals[0])
            if name == 'fsqrt': return z3.fpSqrt(z3.RNE(), vals[0])
            if name == 'posinf': return z3.fpPlusInfinity(F64)
            if name == 'neginf': return z3.fpMinusInfinity(F64)
            if name == 'fnan': return z3.fpNaN(F64)
            if name == 'f64':
                c0 = z3.simplify(vals[0]); return z3.FPVal(float(c0.as_long()), F64)
        if name == 'zx':      # zero-extend a bit-vector to 64 bits
            a = self.sev(env, args[0])
            return z3.ZeroExt(64 - a.size(), a) if a.size() < 64 else a
        if name == 'samestr':     # two string views denote the same bytes (same array, offset, length)
            x, y = self.sev(env, args[0]), self.sev(env, args[1])
            return z3.And(x.arr == y.arr, x.off == y.off, x.len == y.len)
        if name == 'deref':
            x = self.sev(env, args[0])
            if not isinstance(x, PtrV): raise Unsupported('deref of a non-pointer')
            return self.load_ptr(env.st, x)
        if name == 'unboxint':
            from .gocalls import unbox_int
            return unbox_int(self.refof(self.sev(env, args[0])))
        if name == 'suffixof':   # suffixof(p, q): p is q[k:] for k = len(q)-len(p)
            x, y = self.sev(env, args[0]), self.sev(env, args[1])
            return z3.And(x.arr == y.arr, x.off >= y.off, x.off + x.len == y.off + y.len)
        if name == 'prefixof':
            x, y = self.sev(env, args[0]), self.sev(env, args[1])
            return z3.And(x.arr == y.arr, x.off == y.off, x.len <= y.len)
        if name == 'str':      # identity term of a string (for equalities on opaque strings)
            x = self.sev(env, args[0])
            return self.mapkey(env.st, x)
        if name == 'key':      # key(v): the map-key identity of a value
            return self.mapkey(env.st, self.sev(env, args[0]))
        if name == 'has':      # has(m, k): key present in map
            m = self.sev(env, args[0]); kx = self.mapkey(env.st, self.sev(env, args[1]))
            return z3.Select(m.dom, kx)
        if name == 'isglobal' and hasattr(self, 'callghost'):      # isglobal(t, "$name"): the type descriptor t is the global type $name
            x = self.sev(env, args[0])
            nm = args[1][1].decode() if isinstance(args[1][1], bytes) else args[1][1]
            return z3.Function('isglobal_' + re.sub(r'\W', '_', nm), I, B)(x)
        if name in ('copiedFrom', 'copiedBy') and hasattr(self, 'callghost'):
            # the abstract calls of f.typ.copy recorded by the JavaScript executor: copiedFrom(a) = b, copiedBy(a) = the type
            x = self.sev(env, args[0])
            return z3.Select(self.callghost(env.st, 'copy', 'from' if name == 'copiedFrom' else 'by'), x)
        if name in self.spec.pures:
            return self.spec_pure(env, name, [self.sev(env, a) for a in args])
        if name in getattr(self, 'ghost_funcs', {}):
            x = self.sev(env, args[0])
            return self.ghost_read(env.st, name, x)
        raise Unsupported('spec: unknown function %s' % name)

    # pure spec functions: non-recursive ones are macro-expanded; recursive / bodiless ones become
    # uninterpreted z3 functions (their unfoldings enter through explicit axioms or `uses`).
    def spec_pure(self, env, name, argv):
        p = self.spec.pures[name]
        if p['body'] is not None and not p.get('rec'):
            binds = {pn: v for (pn, pt), v in zip(p['params'], argv)}
            for k, v in env.binds.items():
                if k.startswith('$'): binds[k] = v
            env2 = SpecEnv(env.st, binds, env.old, env.results, parent=env)
            return self.sev(env2, p['body'].expr)
        f = self.pure_decl(name)
        flat = []
        for (pn, pt), v in zip(p['params'], argv):
            flat += self.spec_flatten(v)
        r = f(*flat)
        return SeqV(r) if p['ret'] == 'seq' else r

    def spec_flatten(self, v):
        if isinstance(v, StrV): return [v.arr, v.off, v.len]
        if isinstance(v, SliceV): return [v.arrs[0], v.off, v.len]
        if isinstance(v, SeqV): return [v.term]
        if isinstance(v, (PtrV, IfaceV)): return [v.ref]
        return [v]

    def pure_decl(self, name):
        if name in self.purefuncs:
            return self.purefuncs[name]
        p = self.spec.pures[name]
        dom = []
        for pn, pt in p['params']:
            dom += self.spec_sorts(pt)
        rng = self.spec_sorts(p['ret'])[0]
        if p['ret'] == 'seq': self.use_seq = True
        f = z3.Function('spec_' + name, *(dom + [rng]))
        self.purefuncs[name] = f
        return f

    def spec_sorts(self, t):
        t = t.strip()
        if t in ('int', 'byte', 'rune', 'uint8', 'uint16', 'uint32', 'uint64', 'int32', 'int64', 'uint'): return [I]
        if t == 'bool': return [B]
        if t == 'float64': return [F64]
        if t in ('[]byte', 'string', '[]int', '[]rune', '[]int32'): return [ArrII, I, I]
        if t == 'seq': return [ByteSeq]
        if t == 'ref': return [I]
        if t == 'arr': return [ArrII]
        raise Unsupported('spec type %s' % t)

    def ghost_read(self, st, g, x):
        arr = st.ghost.get(('gheap', g))
        if arr is None:
            sort = self.ghost_funcs.get(g, ByteSeq) if hasattr(self, 'ghost_funcs') else ByteSeq
            arr = z3.Const('G_' + g, z3.ArraySort(I, sort))
            st.ghost[('gheap', g)] = arr
        r = z3.Select(arr, self.refof(x))
        return SeqV(r) if r.sort() == ByteSeq else r

    def ghost_write(self, st, g, x, v):
        self.ghost_read(st, g, x)
        t = v.term if isinstance(v, SeqV) else v
        st.ghost[('gheap', g)] = z3.Store(st.ghost[('gheap', g)], self.refof(x), t)

    def sev_bool(self, env, e):
        v = self.sev_assume(env, e) if getattr(env, 'assume_mode', False) else self.sev(env, e)
        if not (isinstance(v, z3.ExprRef) and z3.is_bool(v)):
            raise Unsupported('spec expression is not boolean: %r' % (e,))
        return v
