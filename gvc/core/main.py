# vcheck entry point: `python3-vt -m gvc.core.main prop C19 --tier quick`
import sys, os, json, time, argparse, subprocess, tempfile, glob, traceback

ROOT = os.path.dirname(os.path.dirname(os.path.dirname(os.path.abspath(__file__))))
REPO = os.environ.get('VERIF_REPO', '/repo')

def selftest(which, verbose):
    """Engine self-test on the corpus in /verif/selftest/<which>: functions named Ok_* must have every obligation discharged,
    functions named Bad_* must have at least one failing obligation or be reported undecided.  Run after every engine change."""
    corpus = os.path.join(ROOT, 'selftest', which)
    b = subprocess.run(['go', 'build', './...'], cwd=corpus, stdout=subprocess.PIPE, stderr=subprocess.STDOUT, text=True,
                       env=dict(os.environ, GOFLAGS='-mod=mod', GOPROXY='off', GOSUMDB='off', GOTOOLCHAIN='local'))
    if b.returncode != 0:
        print(b.stdout[-1500:]); print('SELFTEST %s: the corpus does not compile' % which); return 1
    out = tempfile.mkdtemp(prefix='gvc-selftest-')
    env = dict(os.environ, VERIF_REPO=corpus, VERIF_OUT=out)
    p = subprocess.run([sys.executable, '-m', 'gvc.core.main', 'prop', 'S01'] + (['-v'] if verbose else []), cwd=ROOT, env=env,
                       stdout=subprocess.PIPE, stderr=subprocess.STDOUT, text=True)
    if verbose:
        print(p.stdout)
    try:
        ev = json.load(open(os.path.join(out, 'evidence', 'S01.json')))
    except Exception:
        print(p.stdout[-3000:]); print('SELFTEST: no evidence produced'); return 1
    finally:
        pass
    per = {}
    for o in ev['coverage']['per_obligation']:
        f = o['name'].split('/')[0]
        per.setdefault(f, []).append(o)
    und = {u['function'].replace('js st.js ', ''): u['reason'] for u in ev['coverage']['undecided_functions']}
    import re
    names = sorted(set(re.findall(r'^//@ func (st\.(?:Ok|Bad)_\w+)', open(os.path.join(corpus, 'internal', 'verifspec', 'st.go')).read(), re.M)))
    jsf = os.path.join(corpus, 'internal', 'verifspec', 'stjs.go')
    if os.path.exists(jsf):
        names += sorted(set(re.findall(r'^//@ js st\.js (\$(?:ok|bad)_\w+)', open(jsf).read(), re.M)))
    bad = 0
    for n in names:
        obls = per.get(n, [])
        failed = [o for o in obls if o['status'] != 'discharged']
        if n.startswith(('st.Ok_', '$ok_')):
            ok = n not in und and obls and not failed
            why = ('undecided: ' + und[n]) if n in und else ('no obligations' if not obls else ', '.join(o['name'].split('/')[-1] for o in failed))
        else:
            ok = bool(failed) or n in und
            why = 'every obligation was discharged (%d)' % len(obls)
        if not ok:
            bad += 1
            print('SELFTEST FAIL %s: %s' % (n, why))
        elif verbose:
            print('selftest ok   %s%s' % (n, (' [undecided: %s]' % und[n][:80]) if n in und else (' [%d failed]' % len(failed) if failed else '')))
    import shutil
    shutil.rmtree(out, ignore_errors=True)
    print('SELFTEST %s: %d functions, %d wrong' % (which, len(names), bad))
    return 1 if bad else 0

def main():
    ap = argparse.ArgumentParser()
    ap.add_argument('cmd', choices=['prop', 'replay', 'func', 'selftest'])
    ap.add_argument('target')
    ap.add_argument('--tier', default=os.environ.get('VERIF_TIER', 'quick'))
    ap.add_argument('--only', default=None)
    ap.add_argument('-v', action='store_true')
    a = ap.parse_args()
    seed = int(os.environ.get('VERIF_SEED', '0') or 0)
    if a.cmd == 'prop':
        import faulthandler
        faulthandler.dump_traceback_later(1500, repeat=True, file=sys.stderr)     # diagnostic only: where a run is if it takes this long
        from . import props
        sys.exit(props.run_property(a.target, a.tier, seed, verbose=a.v, only=a.only))
    if a.cmd == 'selftest':
        sys.exit(selftest(a.target, a.v))
    if a.cmd == 'replay':
        from . import replay
        sys.exit(replay.run_replay_file(a.target))

if __name__ == '__main__':
    main()
