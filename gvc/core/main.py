# vcheck entry point: `python3-vt -m gvc.core.main prop C19 --tier quick`
import sys, os, json, time, argparse, subprocess, tempfile, glob, traceback

ROOT = os.path.dirname(os.path.dirname(os.path.dirname(os.path.abspath(__file__))))
REPO = os.environ.get('VERIF_REPO', '/repo')

def main():
    ap = argparse.ArgumentParser()
    ap.add_argument('cmd', choices=['prop', 'replay', 'func', 'selftest'])
    ap.add_argument('target')
    ap.add_argument('--tier', default=os.environ.get('VERIF_TIER', 'quick'))
    ap.add_argument('--only', default=None)
    ap.add_argument('-v', action='store_true')
    a = ap.parse_args()
    seed = int(os.environ.get('VERIF_SEED', '0') or 0)
    if a.cmd == 'prop':
        from . import props
        sys.exit(props.run_property(a.target, a.tier, seed, verbose=a.v, only=a.only))
    if a.cmd == 'replay':
        from . import replay
        sys.exit(replay.run_replay_file(a.target))

if __name__ == '__main__':
    main()
