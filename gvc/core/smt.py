# Obligations, SMT-LIB export and the solver portfolio (z3-new, z3 4.8.12, cvc5 raced as binaries).
import os, subprocess, tempfile, time, threading, shutil, re, hashlib
from concurrent.futures import ThreadPoolExecutor
import z3

_PROBE = os.environ.get('GVC_PROBE_SEED')       # robustness probe only: perturbs the default solvers' random seeds
_ps = (['smt.random_seed=%s' % _PROBE, 'sat.random_seed=%s' % _PROBE] if _PROBE else [])
SOLVERS = {
    'z3-new': lambda f, t: ['z3-new', '-T:%d' % max(1, int(t))] + _ps + [f],
    'z3-new-s1': lambda f, t: ['z3-new', '-T:%d' % max(1, int(t)), 'smt.random_seed=7', 'sat.random_seed=7', f],
    'z3-new-s2': lambda f, t: ['z3-new', '-T:%d' % max(1, int(t)), 'smt.random_seed=23', 'smt.arith.random_initial_value=true', f],
    'z3':     lambda f, t: ['z3', '-T:%d' % max(1, int(t))] + _ps + [f],
    'cvc5':   lambda f, t: ['cvc5', '--tlimit=%d' % int(t * 1000), '--lang=smt2', f],
}

class Obligation:
    """One named verification condition: hyps |= goal.  kind 'proof' obligations must be unsat
    (hyps and not goal); kind 'cover' obligations must be sat (hyps satisfiable)."""
    def __init__(self, name, hyps, goal, kind='proof', func=None, src=None, meta=None, bounded=None):
        self.name, self.hyps, self.goal, self.kind = name, list(hyps), goal, kind
        self.func, self.src, self.meta, self.bounded = func, src, meta or {}, bounded
        self.status = None      # 'discharged' | 'failed' | 'unknown'
        self.answer = None      # raw first line of solver output
        self.solver = None
        self.seconds = 0.0
        self.model = None       # dict name -> value string (when sat)
        self.output = ''
        self.smt2 = None

    def to_smt2(self, want_model=True):
        s = z3.Solver()
        for h in self.hyps:
            s.add(h)
        if self.kind == 'proof':
            s.add(z3.Not(self.goal))
        elif self.goal is not None:
            s.add(self.goal)
        txt = s.to_smt2()
        # to_smt2 ends with (check-sat); ask for a model on the z3s only when useful
        if want_model:
            txt = txt.rstrip()
            txt += '\n(get-model)\n'
        return '; obligation %s\n' % self.name + txt


def _parse_model(out):
    """Very small parser for (define-fun name () Sort value) entries of scalar sorts."""
    m = {}
    for mt in re.finditer(r'\(define-fun\s+(\S+)\s+\(\)\s+(\(_ BitVec \d+\)|Int|Bool|Real)\s+([^\n]*?)\)\s*(?=\n|\(define-fun|\)$)', out):
        name, sort, val = mt.group(1), mt.group(2), mt.group(3).strip()
        name = name.strip('|')
        if sort == 'Int':
            v = val.replace('(', '').replace(')', '').replace(' ', '')
            try:
                m[name] = int(v)
            except ValueError:
                pass
        elif sort == 'Bool':
            m[name] = (val == 'true')
        elif sort.startswith('(_ BitVec'):
            if val.startswith('#x'):
                m[name] = int(val[2:], 16)
            elif val.startswith('#b'):
                m[name] = int(val[2:], 2)
    return m


def run_solver(solver, path, timeout):
    t0 = time.time()
    try:
        p = subprocess.run(SOLVERS[solver](path, timeout), stdout=subprocess.PIPE, stderr=subprocess.STDOUT, timeout=timeout + 5, text=True)
        out = p.stdout
    except subprocess.TimeoutExpired as e:
        out = 'timeout\n' + (e.stdout or '' if isinstance(e.stdout, str) else '')
    dt = time.time() - t0
    first = ''
    for line in out.splitlines():
        line = line.strip()
        if line.startswith('(error') and not first:
            first = 'error'        # the solver rejected part of the input (e.g. an operator it does not know): its answer is void
            break
        if line in ('sat', 'unsat', 'unknown', 'timeout'):
            first = line
            break
    if not first:
        first = 'error'
    return first, out, dt


def _has_q(e, _seen=None):
    seen = set() if _seen is None else _seen
    stack = [e]
    while stack:
        x = stack.pop()
        i = x.get_id()
        if i in seen: continue
        seen.add(i)
        if z3.is_quantifier(x): return True
        stack.extend(x.children())
    return False

def _consts(e, acc, seen):
    """names of the uninterpreted constants and functions of a term"""
    stack = [e]
    while stack:
        x = stack.pop()
        i = x.get_id()
        if i in seen: continue
        seen.add(i)
        if z3.is_quantifier(x):
            stack.append(x.body()); continue
        if z3.is_app(x):
            d = x.decl()
            if d.kind() == z3.Z3_OP_UNINTERPRETED:
                acc.add(d.name())
            stack.extend(x.children())

def relevant_hyps(hyps, goal):
    """ground hypotheses plus the quantified ones that talk about a symbol of the goal (or of a ground hypothesis that
    shares a symbol with the goal).  Fewer hypotheses: sound for proofs."""
    gs = set(); _consts(goal, gs, set())
    ground, quant = [], []
    for h in hyps:
        s = set(); _consts(h, s, set())
        (quant if _has_q(h) else ground).append((h, s))
    reach = set(gs)
    for h, s in ground:
        if s & gs and len(s) <= 12:
            reach |= s
    keep = [h for h, s in quant if s & reach]
    if len(keep) == len(quant):
        return None
    return [h for h, s in ground] + keep

def _inproc_check(args):
    """first attempt inside a pool worker (no process start-up): z3 5.1.0 library on the same SMT-LIB text"""
    txt, timeout_ms = args
    import z3 as _z3, time as _t
    t0 = _t.time()
    try:
        ctx = _z3.Context()
        sv = _z3.Solver(ctx=ctx)
        sv.set('timeout', timeout_ms)
        if _PROBE:
            sv.set('random_seed', int(_PROBE))
        sv.from_string(txt.replace('(get-model)', ''))
        r = str(sv.check())
    except Exception as e:
        r = 'error'
    return r, _t.time() - t0

class Portfolio:
    def __init__(self, tier='quick', jobs=None, workdir=None, order=None):
        self.tier = tier
        self.jobs = jobs or min(16, os.cpu_count() or 4)
        self.timeout = 10 if tier == 'quick' else 60
        self.order = order or ['z3-new', 'cvc5', 'z3', 'z3-new-s1', 'z3-new-s2']
        self.workdir = workdir or tempfile.mkdtemp(prefix='gvc-')
        self.own = workdir is None
        self.solver_seconds = 0.0
        self.lock = threading.Lock()

    def close(self):
        if self.own:
            shutil.rmtree(self.workdir, ignore_errors=True)

    def export(self, ob):
        """Serial (z3's Python context is not thread safe): build the SMT-LIB text."""
        if ob.status is not None or ob.smt2 is not None:
            return
        try:
            ob.smt2 = ob.to_smt2()
            ob.smt2_ground = None
            ob.smt2_rel = None
            if ob.kind == 'proof' and any(z3.is_quantifier(h) or _has_q(h) for h in ob.hyps):
                # the same goal from the quantifier-free hypotheses only (sound: fewer hypotheses); decides vacuous and purely
                # ground obligations without exposing the solver to instantiation loops
                g = Obligation(ob.name, [h for h in ob.hyps if not _has_q(h)], ob.goal, 'proof')
                ob.smt2_ground = g.to_smt2(want_model=False)
                rh = relevant_hyps(ob.hyps, ob.goal)
                ob.smt2_rel = Obligation(ob.name, rh, ob.goal, 'proof').to_smt2(want_model=False) if rh is not None else None
        except Exception as e:          # term construction problems are engine errors, not refutations
            ob.status, ob.answer, ob.output = 'unknown', 'error', 'export failed: %r' % e
            return
        if len(ob.smt2) > 4_000_000:
            ob.status, ob.answer, ob.output = 'unknown', 'toolarge', 'VC larger than cap (%d bytes)' % len(ob.smt2)

    def discharge_one(self, ob):
        if ob.status is not None:
            return ob
        txt = ob.smt2
        h = hashlib.sha1(ob.name.encode()).hexdigest()[:10]
        path = os.path.join(self.workdir, re.sub(r'[^A-Za-z0-9_.-]', '_', ob.name)[:80] + '-' + h + '.smt2')
        with open(path, 'w') as f:
            f.write(txt)
        want = 'unsat' if ob.kind == 'proof' else 'sat'
        total = 0.0
        outs = []
        solvers = list(ob.meta.get('solvers', self.order))
        if 'solvers' not in ob.meta and ('FloatingPoint' in txt or 'fp.' in txt):
            solvers = ['z3'] + [s for s in solvers if s != 'z3']       # z3 4.8.12 is the quick one on the FP obligations here
        # first try: primary solver with short timeout, then the others with the full one, then two long last attempts
        # (they only cost time when an obligation is about to be reported as not discharged, e.g. on a loaded machine)
        isfp = 'FloatingPoint' in txt or 'fp.' in txt
        T = max(self.timeout, ob.meta.get('timeout', 0))          # (an obligation may ask for more than the tier's default)
        if isfp:
            # floating-point obligations need 5-10 s of CPU on an idle machine; with all checks started at once the
            # wall-clock limit of 10 s was hit (three obligations of C13 were reported as not discharged under that load)
            T = max(T, 40)
        plan = [(solvers[0], T if isfp else min(T, 4))] + [(s, T) for s in solvers[1:]] + [(solvers[0], T)]
        plan += [(solvers[0], 3 * T), (solvers[1], 3 * T)]
        decided = None
        if getattr(ob, 'smt2_rel', None) and ob.kind == 'proof':
            rpath = path[:-5] + '-rel.smt2'
            with open(rpath, 'w') as f:
                f.write(ob.smt2_rel)
            for solver in ('z3-new', 'z3-new-s1'):
                ans, out, dt = run_solver(solver, rpath, min(self.timeout, 4))
                total += dt
                outs.append('== %s on relevant hypotheses (%.2fs): %s' % (solver, dt, ans))
                if ans == 'unsat':
                    decided = (ans, solver + '(relevant quantified hypotheses)', out)
                    break
            try: os.unlink(rpath)
            except OSError: pass
        for solver, to in (plan if decided is None else []):
            ans, out, dt = run_solver(solver, path, to)
            total += dt
            outs.append('== %s (%.2fs): %s' % (solver, dt, ans))
            if ans in ('sat', 'unsat'):
                decided = (ans, solver, out)
                break
        ob.seconds = total
        with self.lock:
            self.solver_seconds += total
        if decided:
            ans, solver, out = decided
            ob.answer, ob.solver = ans, solver
            if ans == want:
                ob.status = 'discharged'
            else:
                ob.status = 'failed'
                if ans == 'sat':
                    ob.model = _parse_model(out)
                    ob.output = out[:20000]
        else:
            ob.status, ob.answer = 'unknown', 'unknown'
        ob.output = '\n'.join(outs) + '\n' + (ob.output or '')
        try:
            os.unlink(path)
        except OSError:
            pass
        return ob

    def discharge(self, obls):
        for ob in obls:
            self.export(ob)
        pending = [ob for ob in obls if ob.status is None and ob.smt2 is not None]
        if len(pending) >= 8 and os.environ.get('GVC_NO_INPROC') is None:
            import multiprocessing
            try:
                with multiprocessing.get_context('fork').Pool(self.jobs) as pool:
                    gr = [ob for ob in pending if getattr(ob, 'smt2_ground', None)]
                    res0 = pool.map(_inproc_check, [(ob.smt2_ground, 800) for ob in gr], chunksize=4)
                    for ob, (r, dt) in zip(gr, res0):
                        self.solver_seconds += dt
                        if r == 'unsat':
                            ob.status, ob.answer, ob.solver, ob.seconds = 'discharged', r, 'z3-new(lib, ground hypotheses)', dt
                    pending = [ob for ob in pending if ob.status is None]
                    rl = [ob for ob in pending if getattr(ob, 'smt2_rel', None)]
                    res1 = pool.map(_inproc_check, [(ob.smt2_rel, 1500) for ob in rl], chunksize=4)
                    for ob, (r, dt) in zip(rl, res1):
                        self.solver_seconds += dt
                        if r == 'unsat':
                            ob.status, ob.answer, ob.solver, ob.seconds = 'discharged', r, 'z3-new(lib, relevant quantified hypotheses)', dt
                    pending = [ob for ob in pending if ob.status is None]
                    res = pool.map(_inproc_check, [(ob.smt2, 1500) for ob in pending], chunksize=4)
                for ob, (r, dt) in zip(pending, res):
                    self.solver_seconds += dt
                    want = 'unsat' if ob.kind == 'proof' else 'sat'
                    if r == want:          # only the expected answer is taken from the fast path; everything else goes to the portfolio
                        ob.status, ob.answer, ob.solver, ob.seconds = 'discharged', r, 'z3-new(lib)', dt
            except Exception:
                pass
        with ThreadPoolExecutor(max_workers=self.jobs) as ex:
            list(ex.map(self.discharge_one, obls))
        return obls
