# Pattern front-end (C06 / C08): the translator's meaning is the JavaScript it emits.  A grid of one-expression Go
# functions (operator x operand kind x operand shape) is compiled on every run by the real compiler of /repo; the
# emitted function bodies are parsed (acorn) and interpreted under J0 against the Go specification's semantics of the
# expression, for ALL operand values (SMT), including the exceptional outcome (integer divide by zero).
#
# What this drops: the grid fixes the operand *shapes* (variable / constant / a few nested forms); operand *values* are
# universally quantified.  Calls of prelude helpers use the helpers' own contracts (verified separately).
import os, json, re, tempfile, subprocess
import z3
from .values import *
from .gostate import *
from .jsexec import JSExec, JSObj, MaybeNaN, run_jsdump, TDIV, TMOD, TWO32, TWO31, TWO53
from .goexec import Frame, ReturnEx, PanicEx, PathEnd
from .smt import Obligation
from . import e2e

KINDS = {
    'int8': (8, True), 'int16': (16, True), 'int32': (32, True), 'int': (32, True), 'int64': (64, True),
    'uint8': (8, False), 'uint16': (16, False), 'uint32': (32, False), 'uint': (32, False), 'uintptr': (32, False), 'uint64': (64, False),
}
ARITH = ['+', '-', '*', '/', '%']
BITS = ['&', '|', '^', '&^']
CMP = ['==', '!=', '<', '<=', '>', '>=']
OPNAME = {'+': 'add', '-': 'sub', '*': 'mul', '/': 'div', '%': 'rem', '&': 'and', '|': 'or', '^': 'xor', '&^': 'andnot', '<<': 'shl', '>>': 'shr',
          '==': 'eq', '!=': 'ne', '<': 'lt', '<=': 'le', '>': 'gt', '>=': 'ge'}

def rng(kind):
    w, s = KINDS[kind]
    return (-(1 << (w - 1)), (1 << (w - 1)) - 1) if s else (0, (1 << w) - 1)

def consts_for(kind, op):
    lo, hi = rng(kind)
    cs = [1, hi, 3]
    if lo < 0: cs += [-1, lo]
    if op in ('/', '%'):
        cs = [c for c in cs if c != 0]
    return cs

class Case:
    def __init__(self, name, params, ret, gosrc, tree, mode, pre=None):
        self.name, self.params, self.ret, self.gosrc, self.tree, self.mode, self.pre = name, params, ret, gosrc, tree, mode, pre

# expression trees: ('var', name, kind) ('const', value, kind) ('bin', op, l, r, kind) ('un', op, x, kind) ('conv', kind, x)
# ('shift', op, x, count, kind)
def src(t):
    k = t[0]
    if k == 'var': return t[1]
    if k == 'const': return '%s(%d)' % (t[2], t[1])
    if k == 'bin': return '(%s %s %s)' % (src(t[2]), t[1], src(t[3]))
    if k == 'shift': return '(%s %s %s)' % (src(t[2]), t[1], src(t[3]))
    if k == 'un':
        if t[2][0] == 'un':      # `- -x`: no parentheses between the two operators (token-splicing hazard)
            return '(%s %s%s)' % (t[1], t[2][1], src(t[2][2]))
        return '(%s%s)' % (t[1], src(t[2]))
    if k == 'conv': return '%s(%s)' % (t[1], src(t[2]))
    raise ValueError(t)

def kind_of(t):
    k = t[0]
    if k in ('var', 'const'): return t[2]
    if k == 'bin': return t[4]
    if k == 'shift': return t[4]
    if k == 'un': return t[3]
    if k == 'conv': return t[1]

def build_grid(tier='quick'):
    cases = []
    def add(name, params, ret, tree, mode, pre=None):
        body = 'return %s' % src(tree)
        gs = 'func %s(%s) %s { %s }' % (name, ', '.join('%s %s' % (n, k) for n, k in params), ret, body)
        cases.append(Case(name, params, ret, gs, tree, mode, pre))
    for kind in KINDS:
        kn = kind
        for op in ARITH + BITS:
            mode = 'bv' if op in BITS else 'jn'
            x, y = ('var', 'x', kind), ('var', 'y', kind)
            add('B_%s_%s_vv' % (OPNAME[op], kn), [('x', kind), ('y', kind)], kind, ('bin', op, x, y, kind), mode)
            for i, c in enumerate(consts_for(kind, op)):
                if tier == 'quick' and i >= 2 and not (op in ('/', '%') and c == -1):
                    continue          # the quick tier keeps two constants per operator (and the overflowing divisor -1)
                add('B_%s_%s_vc%d' % (OPNAME[op], kn, i), [('x', kind)], kind, ('bin', op, x, ('const', c, kind), kind), mode)
                add('B_%s_%s_cv%d' % (OPNAME[op], kn, i), [('x', kind)], kind, ('bin', op, ('const', c, kind), x, kind), mode)
        for op in CMP:
            x, y = ('var', 'x', kind), ('var', 'y', kind)
            add('C_%s_%s_vv' % (OPNAME[op], kn), [('x', kind), ('y', kind)], 'bool', ('bin', op, x, y, 'bool'), 'jn')
            c = rng(kind)[1]
            add('C_%s_%s_vc' % (OPNAME[op], kn), [('x', kind)], 'bool', ('bin', op, x, ('const', c, kind), 'bool'), 'jn')
        for op in ('-', '^', '+'):
            add('U_%s_%s' % ({'-': 'neg', '^': 'not', '+': 'pos'}[op], kn), [('x', kind)], kind, ('un', op, ('var', 'x', kind), kind), 'bv' if op == '^' else 'jn')
        # shifts: variable counts of several kinds, and constant counts around the width boundaries
        for op in ('<<', '>>'):
            for ck in ('uint8', 'uint', 'uint64', 'int', 'int64'):
                # (a count of a signed type that is negative at run time panics: part of the specification semantics below)
                add('S_%s_%s_by_%s' % (OPNAME[op], kn, ck), [('x', kind), ('y', ck)], kind, ('shift', op, ('var', 'x', kind), ('var', 'y', ck), kind), 'bv')
            for c in ((0, 1, 8, 31, 32, 40, 63, 64) if tier == 'quick' else (0, 1, 7, 8, 15, 16, 31, 32, 33, 40, 63, 64, 65)):
                add('S_%s_%s_c%d' % (OPNAME[op], kn, c), [('x', kind)], kind, ('shift', op, ('var', 'x', kind), ('const', c, 'uint'), kind), 'bv')
            # typed 64-bit constant counts beyond the int64 range ("shifts by counts of any size")
            for nm, c in (('big63', 1 << 63), ('bigmax', (1 << 64) - 1)):
                add('S_%s_%s_c%s' % (OPNAME[op], kn, nm), [('x', kind)], kind, ('shift', op, ('var', 'x', kind), ('const', c, 'uint64'), kind), 'jn')
        for k2 in KINDS:
            add('V_%s_to_%s' % (kn, k2), [('x', kind)], k2, ('conv', k2, ('var', 'x', kind)), 'jn')
    # nested / composite operand shapes (the result must not depend on the shape of an operand)
    for kind in ('int8', 'int32', 'uint32', 'int64', 'uint16'):
        x, a, b = ('var', 'x', kind), ('var', 'a', kind), ('var', 'b', kind)
        add('N_mul_sum_%s' % kind, [('x', kind), ('a', kind), ('b', kind)], kind, ('bin', '*', x, ('bin', '+', a, b, kind), kind), 'jn')
        add('N_sub_neg_%s' % kind, [('x', kind), ('a', kind)], kind, ('bin', '-', x, ('un', '-', a, kind), kind), 'jn')
        add('N_neg_neg_%s' % kind, [('x', kind)], kind, ('un', '-', ('un', '-', x, kind), kind), 'jn')
        add('N_div_sum_%s' % kind, [('x', kind), ('a', kind), ('b', kind)], kind, ('bin', '/', x, ('bin', '+', a, b, kind), kind), 'jn')
        add('N_sum_sum_%s' % kind, [('x', kind), ('a', kind), ('b', kind)], kind, ('bin', '+', ('bin', '+', x, a, kind), b, kind), 'jn')
    return cases

def compound_cases():
    """compound assignments `x op= <expr>` (desugared by compiler/filter): statement-level shapes"""
    out = []
    for kind in ('int32', 'uint8', 'int64', 'uint32'):
        for op in ('*', '-', '/'):
            name = 'A_%s_assign_%s' % (OPNAME[op], kind)
            gs = 'func %s(x, a, b %s) %s { x %s= a + b; return x }' % (name, kind, kind, op)
            x, a, b = ('var', 'x', kind), ('var', 'a', kind), ('var', 'b', kind)
            out.append(Case(name, [('x', kind), ('a', kind), ('b', kind)], kind, gs, ('bin', op, x, ('bin', '+', a, b, kind), kind), 'jn'))
    return out

# ---------------------------------------------------------------------------------------------------------------------
# Go-specification semantics of an expression tree, in the algebra of the executor (mode jn: Int, mode bv: BitVec 64)
class Sem:
    def __init__(self, ex, st):
        self.ex, self.st = ex, st
        self.panic = []          # conditions under which Go panics (integer divide by zero, negative shift count), in evaluation order
        self.panic_msg = []      # the run-time error message of each
    def bv(self): return self.ex.mode == 'bv'
    def num(self, n): return self.ex.num(n)
    def wrap(self, v, kind):
        w, s = KINDS[kind]
        if self.bv():
            if w == 64: return v
            e = z3.Extract(w - 1, 0, v)
            return z3.SignExt(64 - w, e) if s else z3.ZeroExt(64 - w, e)
        if s: return (v + (1 << (w - 1))) % (1 << w) - (1 << (w - 1))
        return v % (1 << w)
    def ev(self, t, env):
        k = t[0]
        if k == 'var': return env[t[1]]
        if k == 'const': return self.constval(t[1], t[2])
        if k == 'conv':
            return self.wrap(self.ev(t[2], env), t[1])
        if k == 'un':
            x = self.ev(t[2], env)
            if t[1] == '-': return self.wrap(-x, t[3])
            if t[1] == '+': return x
            if t[1] == '^': return self.wrap(~x if self.bv() else -x - 1, t[3])
        if k == 'shift':
            x, y = self.ev(t[2], env), self.ev(t[3], env)
            kind = t[4]
            w, s = KINDS[kind]
            if not self.bv():
                # mode jn: only constant counts of at least the operand width (the result does not depend on the bits of x)
                if t[3][0] == 'const' and t[3][1] >= w:
                    if t[1] == '>>' and s: return z3.If(x < 0, self.num(-1), self.num(0))
                    return self.num(0)
                raise Unsupported('shift semantics need mode bv')
            ck = kind_of(t[3])
            if t[3][0] != 'const' and ck in KINDS and KINDS[ck][1]:
                self.panic.append(y < 0); self.panic_msg.append('negative shift amount')       # Go: a negative count panics at run time
            # counts are unsigned (or non-negative): compare as unsigned 64-bit
            big = z3.UGE(y, z3.BitVecVal(w, 64))
            if t[1] == '<<':
                return z3.If(big, z3.BitVecVal(0, 64), self.wrap(x << y, kind))
            if s:
                return z3.If(big, z3.If(x < 0, z3.BitVecVal(-1, 64), z3.BitVecVal(0, 64)), x >> y)
            return z3.If(big, z3.BitVecVal(0, 64), z3.LShR(x, y))
        if k == 'bin':
            op = t[1]
            x, y = self.ev(t[2], env), self.ev(t[3], env)
            okind = kind_of(t[2])
            w, s = KINDS[okind]
            if op in CMP:
                if op == '==': return x == y
                if op == '!=': return x != y
                if self.bv() and not s:
                    return {'<': z3.ULT(x, y), '<=': z3.ULE(x, y), '>': z3.UGT(x, y), '>=': z3.UGE(x, y)}[op]
                return {'<': x < y, '<=': x <= y, '>': x > y, '>=': x >= y}[op]
            kind = t[4]
            if op == '+': return self.wrap(x + y, kind)
            if op == '-': return self.wrap(x - y, kind)
            if op == '*': return self.wrap(self.ex.mul(self.st, x, y, 0) if not self.bv() else x * y, kind)
            if op in ('/', '%'):
                self.panic.append(y == self.num(0)); self.panic_msg.append('integer divide by zero')
                if self.bv():
                    if s: r = (x / y) if op == '/' else z3.SRem(x, y)
                    else: r = z3.UDiv(x, y) if op == '/' else z3.URem(x, y)
                    return self.wrap(r, kind)
                if op == '/': return self.wrap(self.ex.tdiv(self.st, x, y), kind)
                return self.wrap(self.ex.tmod(self.st, x, y), kind)
            if not self.bv(): raise Unsupported('bitwise semantics need mode bv')
            if op == '&': return x & y
            if op == '|': return x | y
            if op == '^': return self.wrap(x ^ y, kind)
            if op == '&^': return x & ~y
        raise ValueError(t)
    def constval(self, v, kind):
        return self.num(v)

# concrete Go semantics on Python integers (the oracle of the replay)
class GoPanic(Exception):
    pass

def gowrap(v, kind):
    w, s = KINDS[kind]
    v &= (1 << w) - 1
    if s and v >= 1 << (w - 1): v -= 1 << w
    return v

def goeval(t, env):
    k = t[0]
    if k == 'var': return env[t[1]]
    if k == 'const': return t[1]
    if k == 'conv': return gowrap(goeval(t[2], env), t[1])
    if k == 'un':
        x = goeval(t[2], env)
        return gowrap({'-': -x, '+': x, '^': ~x}[t[1]], t[3])
    if k == 'shift':
        x, y = goeval(t[2], env), goeval(t[3], env)
        w, s = KINDS[t[4]]
        if y < 0: raise GoPanic('negative shift amount')
        if t[1] == '<<': return gowrap(x << y, t[4]) if y < 4096 else 0
        return x >> min(y, 4096)
    if k == 'bin':
        op = t[1]; x, y = goeval(t[2], env), goeval(t[3], env)
        if op in CMP: return {'==': x == y, '!=': x != y, '<': x < y, '<=': x <= y, '>': x > y, '>=': x >= y}[op]
        kind = t[4]
        if op in ('/', '%'):
            if y == 0: raise GoPanic('integer divide by zero')
            q = abs(x) // abs(y) * (1 if (x >= 0) == (y >= 0) else -1)
            return gowrap(q if op == '/' else x - y * q, kind)
        r = {'+': x + y, '-': x - y, '*': x * y, '&': x & y, '|': x | y, '^': x ^ y, '&^': x & ~y}[op]
        return gowrap(r, kind)
    raise ValueError(t)

class PatternReplayer:
    def __init__(self, ex, case, entry):
        self.ex, self.case, self.entry = ex, case, entry
    def replay(self, ob):
        s = z3.Solver(); s.set('timeout', 20000); s.add(ob.hyps)
        if ob.kind == 'proof': s.add(z3.Not(ob.goal))
        last = None
        # an obligation that does not mention every operand (a helper precondition, say) leaves the others to the solver,
        # which likes 0: up to four models with pairwise different operand values are tried on the real code
        for attempt in range(4):
            if s.check() != z3.sat:
                break
            m = s.model()
            last = self.replay_model(m)
            if last.get('violates'):
                return last
            blk = []
            for (pn, pk) in self.case.params:
                v = self.entry.env[pn]
                for t in ([v.fields['$high'], v.fields['$low']] if KINDS[pk][0] == 64 else [v]):
                    blk.append(t != m.eval(t, model_completion=True))
            if not blk: break
            s.add(z3.And(blk))
        return last or {'violates': False, 'note': 'in-process solver did not reproduce the model'}

    def replay_model(self, m):
        env, jsargs = {}, []
        def num(v):
            r = m.eval(v, model_completion=True)
            return r.as_signed_long() if z3.is_bv(r) else r.as_long()
        for (pn, pk) in self.case.params:
            v = self.entry.env[pn]
            w, sg = KINDS[pk]
            if w == 64:
                h, l = num(v.fields['$high']), num(v.fields['$low'])
                val = gowrap(h * TWO32 + l, pk)
                jsargs.append('mk64(%s, "%d")' % ('$Int64' if sg else '$Uint64', val))
            else:
                val = num(v)
                jsargs.append(str(val))
            env[pn] = val
        try:
            want = goeval(self.case.tree, env)
            want_s = ('true' if want else 'false') if isinstance(want, bool) else str(want)
        except GoPanic as e:
            want_s = 'PANIC:runtime error: ' + str(e)
        w, sg = KINDS.get(self.case.ret, (0, False))
        show = 'i64(r)' if w == 64 else 'String(r)'
        body = 'console.log(tryc(function() { var r = P.%s(%s); return %s; }));' % (self.case.name, ', '.join(jsargs), show)
        gosrc = 'package main\n\nfunc main() {}\n\n' + self.case.gosrc + '\n'
        out, err = e2e.run(gosrc, body)
        if out is None:
            return {'violates': False, 'note': 'end-to-end harness failed: %s' % (err or '')[-300:]}
        got = out.strip().splitlines()[-1] if out.strip() else ''
        res = {'go_function': self.case.gosrc, 'inputs': env, 'compiled_js_result': got, 'go_spec_result': want_s,
               'harness': 'real compiler + prelude of /repo under node (go test -overlay, harness/gvc_e2e_test.go)'}
        res['violates'] = (got != want_s)
        if res['violates']:
            res['violated_clauses'] = ['compiled %s gives %s, the Go specification gives %s' % (self.case.name, got, want_s)]
        return res

# ---------------------------------------------------------------------------------------------------------------------
def find_emitted(program, names):
    """function expressions assigned to the given identifiers anywhere in the package's program"""
    out = {}
    def walk(n):
        if isinstance(n, list):
            for x in n: walk(x)
        elif isinstance(n, dict):
            if n.get('type') == 'AssignmentExpression' and n['left'].get('type') == 'Identifier' and n['left']['name'] in names \
               and n['right'].get('type') in ('FunctionExpression', 'ArrowFunctionExpression'):
                out[n['left']['name']] = n['right']
            for k, v in n.items():
                if k != 'loc' and isinstance(v, (dict, list)): walk(v)
    walk(program)
    return out

class PatternExec(JSExec):
    def param_value(self, st, name, kind):
        w, s = KINDS[kind]
        if w == 64:
            return self.make_param(st, name, 'i64' if s else 'u64')
        lo, hi = rng(kind)
        sort = z3.BitVecSort(64) if self.mode == 'bv' else I
        v = fresh(name, sort)
        if self.mode == 'bv':
            st.pc.append(z3.And(v >= z3.BitVecVal(lo, 64), v <= z3.BitVecVal(hi, 64)))
        else:
            st.pc.append(z3.And(v >= lo, v <= hi)); self.know(v, lo, hi)
        return v

    def go_value(self, v, kind):
        """the Go value denoted by a JS representation"""
        w, s = KINDS[kind]
        if w == 64:
            if self.mode == 'bv':
                return (v.fields['$high'] << 32) + v.fields['$low']
            return v.fields['$high'] * TWO32 + v.fields['$low']
        return v

    def rep_ok(self, v, kind):
        w, s = KINDS[kind]
        n = self.num
        if w == 64:
            h, l = v.fields['$high'], v.fields['$low']
            hr = (-TWO31, TWO31 - 1) if s else (0, TWO32 - 1)
            return z3.And(h >= n(hr[0]), h <= n(hr[1]), l >= n(0), l <= n(TWO32 - 1))
        lo, hi = rng(kind)
        return z3.And(v >= n(lo), v <= n(hi))

    def verify_case(self, case, fn):
        reset_fresh()
        self.known_ranges = {}; self.u32view = {}; self.dmcache = {}; self.tzinfo = {}; self._keep = []
        self.mode = case.mode
        fr = Frame('pattern ' + case.name, fn, None)
        fr.loops = {}
        fr.loop_specs = {}
        self.frame = fr
        self.loop_cache = {}
        st = State()
        env = {}
        for (pn, pk) in case.params:
            v = self.param_value(st, pn, pk)
            st.env[pn] = v
            env[pn] = self.go_value(v, pk)
        if case.pre:
            # only `y >= 0` is used (signed shift counts: negative counts are the documented exception)
            st.pc.append(env['y'] >= self.num(0))
        entry = st.clone(); st.entry = entry; entry.entry = entry
        fr.replayer = PatternReplayer(self, case, entry)
        sem = Sem(self, st)
        want = sem.ev(case.tree, env)
        panic_cond = z3.Or(sem.panic) if sem.panic else z3.BoolVal(False)
        body = fn['body']
        def run(state):
            self.block(state, body['body'])
            return None
        exits = self.run_paths(st, run)
        n = 0
        for (how, state, info) in exits:
            self.trace = ['exit', n]; n += 1
            if how == 'return':
                r = info[0]
                if isinstance(r, MaybeNaN):
                    self.oblige(state, 'result-not-NaN', z3.Not(r.nan)); r = r.val
                self.oblige(state, 'no-panic-expected', z3.Not(panic_cond))
                if case.ret == 'bool':
                    self.oblige(state, 'value', r == want)
                else:
                    self.oblige(state, 'representation', self.rep_ok(r, case.ret))
                    self.oblige(state, 'value', self.go_value(r, case.ret) == want)
            elif how == 'panic':
                self.oblige(state, 'panic-only-if-spec-panics(%s)' % info, panic_cond)
                if sem.panic:
                    self.oblige(state, 'panic-message', z3.Or([z3.And(c, z3.BoolVal(str(info) == m)) for c, m in zip(sem.panic, sem.panic_msg)]))
            elif how == 'end':
                self.oblige(state, 'returns-a-value', z3.BoolVal(False))
        self.trace = []
        return len(exits)

def run_patterns(rep, spec, tier='quick', verbose=False, only=None, which=('grid', 'compound', 'float'), select=None):
    cases = []
    if 'grid' in which: cases += build_grid(tier)
    if 'compound' in which: cases += compound_cases()
    if 'float' in which: cases += float_cases()
    if select: cases = [c for c in cases if select(c)]
    if only: cases = [c for c in cases if only in c.name]
    gosrc = 'package main\n\nfunc main() {}\n\n' + '\n'.join(c.gosrc for c in cases) + '\n'
    with tempfile.TemporaryDirectory(prefix='gvc-pat-') as td:
        keep = os.path.join(td, 'pkg.js')
        out, err = e2e.run(gosrc, 'console.log("compiled")', keep=keep)
        if out is None or not os.path.exists(keep):
            rep.undecided.append(('pattern grid', 'the real compiler did not produce output: %s' % (err or '')[-400:]))
            return []
        files = [os.path.join(props_repo(), 'compiler', 'prelude', f) for f in ('prelude.js', 'numeric.js', 'types.js', 'goroutines.js', 'jsmapping.js')] + [keep]
        dump = run_jsdump(files)
    emitted = find_emitted(dump['pkg.js']['program'], {c.name for c in cases})
    obls = []
    ex = PatternExec(dump, spec)
    ex.load_axioms()
    npaths = 0
    for c in cases:
        fn = emitted.get(c.name)
        if fn is None:
            rep.undecided.append(('pattern ' + c.name, 'function not found in the emitted package'))
            continue
        before = len(ex.obls)
        try:
            if isinstance(c, FCase):
                ex.verify_float_case(c, fn); npaths += 1
            else:
                npaths += ex.verify_case(c, fn)
            rep.functions.append('emitted ' + c.name)
        except (Unsupported, KeyError, RecursionError, AttributeError, TypeError, IndexError, z3.Z3Exception) as e:
            del ex.obls[before:]
            rep.undecided.append(('pattern ' + c.name, '%s: %s' % (type(e).__name__, e)))
    obls = ex.obls
    rep.assumed |= ex.assumed
    rep.extra['pattern_cases'] = len(cases)
    rep.extra['pattern_paths'] = npaths
    rep.extra['helper_contracts_used'] = sorted(getattr(ex, 'used_contracts', set()))
    return obls

def props_repo():
    return os.environ.get('VERIF_REPO', '/repo')


# ---------------------------------------------------------------------------------------------------------------------
# C08: run-time checks emitted for indexing, slicing and make.  Each case: a Go function, the J0 kinds of its parameters,
# the Go-specification panic condition and the expected result.
class SpecCase:
    def __init__(self, name, gosrc, params, panic, msg, result=None, mode='jn', pre=None):
        self.name, self.gosrc, self.params, self.panic, self.msg, self.result, self.mode, self.pre = name, gosrc, params, panic, msg, result, mode, pre

def elem(ex, st, s, i):
    return z3.Select(z3.Select(ex.heap(st), s.fields['$array'].ident), s.fields['$offset'] + i)

def c08_cases():
    C = []
    oob = lambda i, n: z3.Or(i < 0, i >= n)
    C.append(SpecCase('IdxS', 'func IdxS(s []int32, i int) int32 { return s[i] }', [('s', 'slice'), ('i', 'int32')],
                      lambda ex, st, P: oob(P['i'], P['s'].fields['$length']), 'index out of range',
                      lambda ex, st0, st, P, r: [('value', r == elem(ex, st0, P['s'], P['i']))]))
    C.append(SpecCase('IdxSC', 'func IdxSC(s []int32) int32 { return s[3] }', [('s', 'slice')],
                      lambda ex, st, P: 3 >= P['s'].fields['$length'], 'index out of range',
                      lambda ex, st0, st, P, r: [('value', r == elem(ex, st0, P['s'], 3))]))
    C.append(SpecCase('SetS', 'func SetS(s []int32, i int, v int32) { s[i] = v }', [('s', 'slice'), ('i', 'int32'), ('v', 'int32')],
                      lambda ex, st, P: oob(P['i'], P['s'].fields['$length']), 'index out of range',
                      lambda ex, st0, st, P, r: [('stored', elem(ex, st, P['s'], P['i']) == P['v']),
                                                 ('frame', z3.ForAll([K_], z3.Implies(K_ != P['s'].fields['$offset'] + P['i'],
                                                   z3.Select(z3.Select(ex.heap(st), P['s'].fields['$array'].ident), K_) == z3.Select(z3.Select(ex.heap(st0), P['s'].fields['$array'].ident), K_))))]))
    # assignment to an entry of a nil map panics (the emitted `(m || $throwRuntimeError(...)).set(...)`)
    C.append(SpecCase('MapSet', 'func MapSet(m map[int]int, k int, v int) { m[k] = v }', [('m', 'gomap'), ('k', 'int32'), ('v', 'int32')],
                      lambda ex, st, P: P['m'].fields['$nil'], 'assignment to entry in nil map',
                      lambda ex, st0, st, P, r: []))
    C.append(SpecCase('IdxStr', 'func IdxStr(s string, i int) byte { return s[i] }', [('s', 'str'), ('i', 'int32')],
                      lambda ex, st, P: oob(P['i'], P['s'].len), 'index out of range',
                      lambda ex, st0, st, P, r: [('value', r == z3.Select(P['s'].arr, P['s'].off + P['i']))]))
    C.append(SpecCase('IdxStrC', 'func IdxStrC(s string) byte { return s[2] }', [('s', 'str')],
                      lambda ex, st, P: 2 >= P['s'].len, 'index out of range',
                      lambda ex, st0, st, P, r: [('value', r == z3.Select(P['s'].arr, P['s'].off + 2))]))
    aelem = lambda ex, st, a, i: z3.Select(z3.Select(ex.heap(st), a.ident), i)
    C.append(SpecCase('IdxA', 'func IdxA(a [4]int32, i int) int32 { return a[i] }', [('a', 'arr'), ('i', 'int32')],
                      lambda ex, st, P: oob(P['i'], 4), 'index out of range',
                      lambda ex, st0, st, P, r: [('value', r == aelem(ex, st0, P['a'], P['i']))], pre=lambda ex, st, P: P['a'].length == 4))
    C.append(SpecCase('IdxAP', 'func IdxAP(a *[4]int32, i int) int32 { return a[i] }', [('a', 'arrptr4'), ('i', 'int32')],
                      lambda ex, st, P: z3.Or(P['a'].isnil, oob(P['i'], 4)), None,
                      lambda ex, st0, st, P, r: [('value', r == aelem(ex, st0, P['a'], P['i']))]))
    # &s[i] evaluates s[i]: an index out of range panics (the pointer itself is opaque here)
    C.append(SpecCase('AddrS', 'func AddrS(s []int32, i int) *int32 { return &s[i] }', [('s', 'slice'), ('i', 'int32')],
                      lambda ex, st, P: oob(P['i'], P['s'].fields['$length']), 'index out of range',
                      lambda ex, st0, st, P, r: []))
    # the operand of a shift is evaluated also when the count makes the result 0 (here: its nil dereference must panic)
    C.append(SpecCase('ShBigC', 'func ShBigC(a *[4]int32) int32 { return a[1] << 40 }', [('a', 'arrptr4')],
                      lambda ex, st, P: P['a'].isnil, None,
                      lambda ex, st0, st, P, r: [('value', r == 0)]))
    C.append(SpecCase('SetAP', 'func SetAP(a *[4]int32, i int, v int32) { a[i] = v }', [('a', 'arrptr4'), ('i', 'int32'), ('v', 'int32')],
                      lambda ex, st, P: z3.Or(P['a'].isnil, oob(P['i'], 4)), None,
                      lambda ex, st0, st, P, r: [('stored', aelem(ex, st, P['a'], P['i']) == P['v'])]))
    def sl_res(lo, hi, mx):
        def f(ex, st0, st, P, r):
            s = P['s']
            a = P[lo] if lo else 0
            h = P[hi] if hi else s.fields['$length']
            m = P[mx] if mx else s.fields['$capacity']
            return [('nil stays nil', z3.Implies(s.fields['$nil'], r.fields['$nil'])),
                    ('view', z3.Implies(z3.Not(s.fields['$nil']), z3.And(r.fields['$array'].ident == s.fields['$array'].ident, r.fields['$offset'] == s.fields['$offset'] + a,
                                                                        r.fields['$length'] == h - a, r.fields['$capacity'] == m - a)))]
        return f
    def sl_panic(lo, hi, mx):
        def f(ex, st, P):
            s = P['s']
            a = P[lo] if lo else 0
            h = P[hi] if hi else s.fields['$length']
            m = P[mx] if mx else s.fields['$capacity']
            return z3.Not(z3.And(0 <= a, a <= h, h <= m, m <= s.fields['$capacity']))
        return f
    C.append(SpecCase('Sl2', 'func Sl2(s []int32, a, b int) []int32 { return s[a:b] }', [('s', 'slice'), ('a', 'int32'), ('b', 'int32')], sl_panic('a', 'b', None), 'slice bounds out of range', sl_res('a', 'b', None)))
    C.append(SpecCase('Sl3', 'func Sl3(s []int32, a, b, c int) []int32 { return s[a:b:c] }', [('s', 'slice'), ('a', 'int32'), ('b', 'int32'), ('c', 'int32')], sl_panic('a', 'b', 'c'), 'slice bounds out of range', sl_res('a', 'b', 'c')))
    C.append(SpecCase('SlLo', 'func SlLo(s []int32, a int) []int32 { return s[a:] }', [('s', 'slice'), ('a', 'int32')], sl_panic('a', None, None), 'slice bounds out of range', sl_res('a', None, None)))
    C.append(SpecCase('SlHi', 'func SlHi(s []int32, b int) []int32 { return s[:b] }', [('s', 'slice'), ('b', 'int32')], sl_panic(None, 'b', None), 'slice bounds out of range', sl_res(None, 'b', None)))
    C.append(SpecCase('SlStr', 'func SlStr(s string, a, b int) string { return s[a:b] }', [('s', 'str'), ('a', 'int32'), ('b', 'int32')],
                      lambda ex, st, P: z3.Not(z3.And(0 <= P['a'], P['a'] <= P['b'], P['b'] <= P['s'].len)), 'slice bounds out of range',
                      lambda ex, st0, st, P, r: [('length', r.len == P['b'] - P['a'])]))
    C.append(SpecCase('Mk', 'func Mk(n int) []byte { return make([]byte, n) }', [('n', 'int32')],
                      lambda ex, st, P: P['n'] < 0, None,
                      lambda ex, st0, st, P, r: [('len/cap', z3.And(r.fields['$length'] == P['n'], r.fields['$capacity'] == P['n'], z3.Not(r.fields['$nil'])))]))
    C.append(SpecCase('Mk2', 'func Mk2(n, m int) []int32 { return make([]int32, n, m) }', [('n', 'int32'), ('m', 'int32')],
                      lambda ex, st, P: z3.Or(P['n'] < 0, P['m'] < P['n']), None,
                      lambda ex, st0, st, P, r: [('len/cap', z3.And(r.fields['$length'] == P['n'], r.fields['$capacity'] == P['m'], z3.Not(r.fields['$nil'])))]))
    # make(map[K]V, n): n is a hint, a negative hint is NOT a panic (the specification makes a negative size a run-time panic
    # for slices and channels only; gc creates the map).  My first version of this case demanded the panic GopherJS raised:
    # that was the check encoding the code, corrected when a sub-agent's differential run showed Go's behaviour.
    C.append(SpecCase('MkMap', 'func MkMap(n int) map[int]int { return make(map[int]int, n) }', [('n', 'int32')],
                      lambda ex, st, P: z3.BoolVal(False), None,
                      lambda ex, st0, st, P, r: [('not nil', z3.Not(r.fields['$nil']))]))
    return C

K_ = z3.Int('k!frame')

def run_c08(rep, spec, verbose=False, only=None):
    cases = c08_cases()
    if only: cases = [c for c in cases if only in c.name]
    gosrc = 'package main\n\nfunc main() {}\n\n' + '\n'.join(c.gosrc for c in cases) + '\n'
    with tempfile.TemporaryDirectory(prefix='gvc-pat-') as td:
        keep = os.path.join(td, 'pkg.js')
        out, err = e2e.run(gosrc, 'console.log("compiled")', keep=keep)
        if out is None or not os.path.exists(keep):
            rep.undecided.append(('C08 pattern cases', 'the real compiler did not produce output: %s' % (err or '')[-400:]))
            return []
        files = [os.path.join(props_repo(), 'compiler', 'prelude', f) for f in ('prelude.js', 'numeric.js', 'types.js', 'goroutines.js', 'jsmapping.js')] + [keep]
        dump = run_jsdump(files)
    emitted = find_emitted(dump['pkg.js']['program'], {c.name for c in cases})
    ex = PatternExec(dump, spec)
    ex.load_axioms()
    for c in cases:
        fn = emitted.get(c.name)
        if fn is None:
            rep.undecided.append(('pattern ' + c.name, 'function not found in the emitted package')); continue
        before = len(ex.obls)
        try:
            ex.verify_spec_case(c, fn)
            rep.functions.append('emitted ' + c.name)
        except (Unsupported, KeyError, RecursionError, AttributeError, TypeError, IndexError, z3.Z3Exception) as e:
            del ex.obls[before:]
            rep.undecided.append(('pattern ' + c.name, '%s: %s' % (type(e).__name__, e)))
    rep.assumed |= ex.assumed
    rep.extra['helper_contracts_used'] = sorted(getattr(ex, 'used_contracts', set()))
    return ex.obls

def _verify_spec_case(self, case, fn):
    reset_fresh()
    self.known_ranges = {}; self.u32view = {}; self.dmcache = {}; self.tzinfo = {}; self._keep = []
    self.mode = case.mode
    fr = Frame('pattern ' + case.name, fn, None)
    fr.loops = {}; fr.loop_specs = {}
    self.frame = fr
    self.loop_cache = {}
    st = State()
    P = {}
    for (pn, pt) in case.params:
        P[pn] = st.env[pn] = self.make_param(st, pn, pt)
    self.heap(st)
    if case.pre is not None:
        st.pc.append(case.pre(self, st, P))
    entry = st.clone(); st.entry = entry; entry.entry = entry
    pc = case.panic(self, st, P)
    body = fn['body']
    def run(state):
        self.block(state, body['body'])
        return None
    n = 0
    for (how, state, info) in self.run_paths(st, run):
        self.trace = ['exit', n]; n += 1
        if how in ('return', 'end'):
            self.oblige(state, 'no-panic-expected', z3.Not(pc))
            r = info[0] if (how == 'return' and info) else None
            if isinstance(r, MaybeNaN):
                self.oblige(state, 'result-not-NaN', z3.Not(r.nan)); r = r.val
            from .jsexec import JSUndef
            if isinstance(r, JSUndef):
                self.oblige(state, 'result-defined', z3.BoolVal(False))
            elif case.result is not None:
                for (nm, g) in case.result(self, entry, state, P, r):
                    self.oblige(state, nm, g)
        elif how == 'panic':
            self.oblige(state, 'panic-only-if-spec-panics(%s)' % info, pc)
            if case.msg:
                self.oblige(state, 'panic-message', z3.BoolVal(str(info) == case.msg))
    self.trace = []
PatternExec.verify_spec_case = _verify_spec_case


# ---------------------------------------------------------------------------------------------------------------------
# Floating-point operand kinds (mode fp: IEEE-754 in the SMT floating-point theory).  float32 arithmetic is specified as
# "the double operation rounded to single" -- equal to the single-precision operation for + - * / by the double-rounding
# theorem (Figueroa 1995), which is a listed assumption, not proved here.
FOPS = ['+', '-', '*', '/']
FCMP = ['==', '!=', '<', '<=', '>', '>=']
INTK32 = ['int8', 'int16', 'int32', 'int', 'uint8', 'uint16', 'uint32', 'uint', 'uintptr']

class FCase:
    def __init__(self, name, params, ret, gosrc, tree):
        self.name, self.params, self.ret, self.gosrc, self.tree, self.mode, self.pre = name, params, ret, gosrc, tree, 'fp', None

def float_cases():
    C = []
    def add(name, params, ret, tree, body=None):
        gs = 'func %s(%s) %s { %s }' % (name, ', '.join('%s %s' % (n, k) for n, k in params), ret, body or ('return %s' % src(tree)))
        C.append(FCase(name, params, ret, gs, tree))
    for fk in ('float64', 'float32'):
        x, y, a, b = [('var', n, fk) for n in 'xyab']
        for op in FOPS:
            add('F_%s_%s_vv' % (OPNAME[op], fk), [('x', fk), ('y', fk)], fk, ('bin', op, x, y, fk))
            add('F_%s_assign_%s' % (OPNAME[op], fk), [('x', fk), ('a', fk), ('b', fk)], fk, ('bin', op, x, ('bin', '+', a, b, fk), fk), body='x %s= a + b; return x' % op)
            add('F_%s_assign_sub_%s' % (OPNAME[op], fk), [('x', fk), ('a', fk), ('b', fk)], fk, ('bin', op, x, ('bin', '-', a, b, fk), fk), body='x %s= a - b; return x' % op)
        for op in FCMP:
            add('F_%s_%s_vv' % (OPNAME[op], fk), [('x', fk), ('y', fk)], 'bool', ('bin', op, x, y, 'bool'))
        add('F_neg_%s' % fk, [('x', fk)], fk, ('un', '-', x, fk))
        add('F_negneg_%s' % fk, [('x', fk)], fk, ('un', '-', ('un', '-', x, fk), fk))
        add('F_mul_sum_%s' % fk, [('x', fk), ('a', fk), ('b', fk)], fk, ('bin', '*', x, ('bin', '+', a, b, fk), fk))
        add('F_sub_sub_%s' % fk, [('x', fk), ('a', fk), ('b', fk)], fk, ('bin', '-', x, ('bin', '-', a, b, fk), fk))
        add('F_div_mul_%s' % fk, [('x', fk), ('a', fk), ('b', fk)], fk, ('bin', '/', x, ('bin', '*', a, b, fk), fk))
        for ik in INTK32:
            add('F_conv_%s_to_%s' % (ik, fk), [('x', ik)], fk, ('conv', fk, ('var', 'x', ik)))
    add('F_conv_float64_to_float32', [('x', 'float64')], 'float32', ('conv', 'float32', ('var', 'x', 'float64')))
    add('F_conv_float32_to_float64', [('x', 'float32')], 'float64', ('conv', 'float64', ('var', 'x', 'float32')))
    return C

def fround(v):
    return z3.fpToFP(z3.RNE(), z3.fpToFP(z3.RNE(), v, F32), F64)

def is_fround(r):
    try:
        return z3.is_app(r) and r.decl().kind() == z3.Z3_OP_FPA_TO_FP and r.num_args() == 2 and z3.is_fp(r.arg(1)) and r.arg(1).sort() == F32
    except Exception:
        return False

def fsem(t, env):
    k = t[0]
    if k == 'var': return env[t[1]]
    if k == 'conv':
        v = fsem(t[2], env)
        return fround(v) if t[1] == 'float32' else v
    if k == 'un':
        v = z3.fpNeg(fsem(t[2], env))
        return v
    if k == 'bin':
        op = t[1]; a, b = fsem(t[2], env), fsem(t[3], env)
        if op in FCMP:
            return {'==': z3.fpEQ(a, b), '!=': z3.Not(z3.fpEQ(a, b)), '<': z3.fpLT(a, b), '<=': z3.fpLEQ(a, b), '>': z3.fpGT(a, b), '>=': z3.fpGEQ(a, b)}[op]
        rm = z3.RNE()
        r = {'+': z3.fpAdd, '-': z3.fpSub, '*': z3.fpMul, '/': z3.fpDiv}[op](rm, a, b)
        return fround(r) if t[4] == 'float32' else r
    raise ValueError(t)

def _verify_float_case(self, case, fn):
    reset_fresh()
    self.known_ranges = {}; self.u32view = {}; self.dmcache = {}; self.tzinfo = {}; self._keep = []
    self.mode = 'fp'
    fr = Frame('pattern ' + case.name, fn, None)
    fr.loops = {}; fr.loop_specs = {}
    self.frame = fr
    self.loop_cache = {}
    st = State()
    env = {}
    bits = {}
    for (pn, pk) in case.params:
        if pk == 'float64':
            v = fresh(pn, F64)
        elif pk == 'float32':
            f = fresh(pn, F32); v = z3.fpToFP(z3.RNE(), f, F64)
        else:
            w, sg = KINDS[pk]
            bvv = fresh(pn, z3.BitVecSort(w))
            v = z3.fpSignedToFP(z3.RNE(), bvv, F64) if sg else z3.fpUnsignedToFP(z3.RNE(), bvv, F64)
        st.env[pn] = v; env[pn] = v
    entry = st.clone(); st.entry = entry; entry.entry = entry
    fr.replayer = FloatReplayer(self, case, entry)
    want = fsem(case.tree, env)
    body = fn['body']
    def run(state):
        self.block(state, body['body'])
        return None
    n = 0
    for (how, state, info) in self.run_paths(st, run):
        self.trace = ['exit', n]; n += 1
        if how == 'return':
            r = info[0]
            if case.ret == 'bool':
                self.oblige(state, 'value', r == want)
            else:
                self.oblige(state, 'value', z3.Or(z3.And(z3.fpIsNaN(r), z3.fpIsNaN(want)), r == want))
                if case.ret == 'float32' and not is_fround(r):
                    # (a value that is syntactically fround(t) is single precision by construction)
                    self.oblige(state, 'single-precision result', z3.Or(z3.fpIsNaN(r), r == fround(r)))
        elif how == 'panic':
            self.oblige(state, 'no-panic(%s)' % info, z3.BoolVal(False))
        else:
            self.oblige(state, 'returns-a-value', z3.BoolVal(False))
    self.trace = []
PatternExec.verify_float_case = _verify_float_case

class FloatReplayer:
    def __init__(self, ex, case, entry):
        self.ex, self.case, self.entry = ex, case, entry
    def replay(self, ob):
        import numpy as np, struct
        s = z3.Solver(); s.set('timeout', 30000); s.add(ob.hyps)
        if ob.kind == 'proof': s.add(z3.Not(ob.goal))
        if s.check() != z3.sat:
            return {'violates': False, 'note': 'in-process solver did not reproduce the model'}
        m = s.model()
        env, jsargs, shown = {}, [], {}
        for (pn, pk) in self.case.params:
            v = self.entry.env[pn]
            b = m.eval(z3.fpToIEEEBV(v), model_completion=True).as_long()
            d = struct.unpack('<d', struct.pack('<Q', b))[0]
            env[pn] = np.float32(d) if pk == 'float32' else (np.float64(d) if pk == 'float64' else int(d))
            jsargs.append('f64("%d")' % b)
            shown[pn] = repr(d)
        def ev(t):
            k = t[0]
            if k == 'var': return env[t[1]]
            if k == 'conv':
                v = ev(t[2]); return np.float32(v) if t[1] == 'float32' else np.float64(v)
            if k == 'un': return -ev(t[2])
            op = t[1]; a, b = ev(t[2]), ev(t[3])
            if op in FCMP: return bool({'==': a == b, '!=': a != b, '<': a < b, '<=': a <= b, '>': a > b, '>=': a >= b}[op])
            with np.errstate(all='ignore'):
                return {'+': a + b, '-': a - b, '*': a * b, '/': a / b}[op]
        with np.errstate(all='ignore'):
            want = ev(self.case.tree)
        if isinstance(want, bool): want_s = 'true' if want else 'false'
        else:
            wb = struct.unpack('<Q', struct.pack('<d', float(want)))[0]
            want_s = 'NaN' if want != want else str(wb)
        body = ('var f64 = function(s) { var u = new BigUint64Array([BigInt(s)]); return new Float64Array(u.buffer)[0]; };\n'
                'var bits = function(x) { if (x !== x) return "NaN"; var f = new Float64Array([x]); return new BigUint64Array(f.buffer)[0].toString(); };\n'
                'console.log(tryc(function() { var r = P.%s(%s); return typeof r === "boolean" ? String(r) : bits(r); }));' % (self.case.name, ', '.join(jsargs)))
        gosrc = 'package main\n\nfunc main() {}\n\n' + self.case.gosrc + '\n'
        out, err = e2e.run(gosrc, body)
        if out is None:
            return {'violates': False, 'note': 'end-to-end harness failed: %s' % (err or '')[-300:]}
        got = out.strip().splitlines()[-1] if out.strip() else ''
        res = {'go_function': self.case.gosrc, 'inputs': shown, 'compiled_js_result_bits': got, 'go_spec_result_bits': want_s,
               'harness': 'real compiler + prelude of /repo under node; expected value from numpy IEEE arithmetic'}
        res['violates'] = (got != want_s)
        if res['violates']:
            res['violated_clauses'] = ['compiled %s gives bits %s, Go gives bits %s' % (self.case.name, got, want_s)]
        return res


# ---------------------------------------------------------------------------------------------------------------------
# C14: strings.  Conversions from code points use $encodeRune (through its contract); range-over-string loops are checked
# one iteration at a time: from any position _i < len(s) the emitted body must decode at _i, bind the loop variables to
# (_i, rune) and advance by exactly the width of that rune.
def c14_cases():
    C = []
    def enc_ok(v):
        def f(ex, st0, st, P, r):
            env = gospec_env(ex, st, {'result': r, 'v': v(P)})
            want = z3.If(z3.And(v(P) >= 0, v(P) <= 1114111, z3.Not(z3.And(v(P) >= 55296, v(P) <= 57343))), v(P), 65533)
            return [('decodes to the code point', ex.sev_bool(env, speclang.parse_expr('decR(result, 0)')) if False else (ex.sev(env, speclang.parse_expr('decR(result, 0)')) == want)),
                    ('one rune', ex.sev(env, speclang.parse_expr('decW(result, 0)')) == r.len),
                    ('shortest form', r.len == z3.If(want <= 127, 1, z3.If(want <= 2047, 2, z3.If(want <= 65535, 3, 4))))]
        return f
    nopanic = lambda ex, st, P: z3.BoolVal(False)
    C.append(SpecCase('SB', 'func SB(b byte) string { return string(b) }', [('b', 'byte')], nopanic, None, enc_ok(lambda P: P['b'])))
    C.append(SpecCase('SR', 'func SR(r rune) string { return string(r) }', [('r', 'rune32')], nopanic, None, enc_ok(lambda P: P['r'])))
    C.append(SpecCase('SI', 'func SI(i int) string { return string(rune(i)) }', [('i', 'int32')], nopanic, None, enc_ok(lambda P: P['i'])))
    C.append(SpecCase('SU16', 'func SU16(u uint16) string { return string(rune(u)) }', [('u', 'nat')], nopanic, None, enc_ok(lambda P: P['u']), pre=lambda ex, st, P: P['u'] <= 65535))
    # 64-bit integers: the whole value decides (anything outside the Unicode range, in particular a non-zero high word, is U+FFFD)
    v64 = lambda P: P['x'].fields['$high'] * TWO32 + P['x'].fields['$low']
    C.append(SpecCase('SI64', 'func SI64(x int64) string { return string(x) }', [('x', 'i64')], nopanic, None, enc_ok(v64)))
    C.append(SpecCase('SU64', 'func SU64(x uint64) string { return string(x) }', [('x', 'u64')], nopanic, None, enc_ok(v64)))
    return C

def gospec_env(ex, st, binds):
    from .gospec import SpecEnv
    b = {}
    for k, v in binds.items():
        b[k] = ex.to_spec(st, v) if not isinstance(v, z3.ExprRef) else v
    return SpecEnv(st, b, st.entry)

RANGE_CASES = [
    ('RangeCount', 'func RangeCount(s string) int { n := 0; for range s { n++ }; return n }', None, None),
    ('RangeIdx', 'func RangeIdx(s string) int { a := 0; for i := range s { a += i }; return a }', 'i', None),
    ('RangeSum', 'func RangeSum(s string) (int, int) { a, b := 0, 0; for i, r := range s { a += i; b += int(r) }; return a, b }', 'i', 'r'),
    ('RangeVal', 'func RangeVal(s string) int { b := 0; for _, r := range s { b += int(r) }; return b }', None, 'r'),
]

def _verify_range_case(self, name, fn, ivar, rvar):
    """one-iteration obligation for the loop emitted for `for i, r := range s`"""
    from .jsexec import JSTuple
    reset_fresh()
    self.known_ranges = {}; self.u32view = {}; self.dmcache = {}; self.tzinfo = {}; self._keep = []
    self.mode = 'jn'
    fr = Frame('pattern ' + name, fn, None)
    fr.loops = {}; fr.loop_specs = {}
    self.frame = fr
    self.loop_cache = {}
    st = State()
    s = self.make_param(st, 's', 'str')
    st.env['s'] = s
    entry = st.clone(); st.entry = entry; entry.entry = entry
    stmts = fn['body']['body']
    loop = None
    for k, x in enumerate(stmts):
        if x['type'] == 'WhileStatement':
            loop = x; break
        self.stmt(st, x)
    if loop is None:
        raise Unsupported('no loop in the emitted range function')
    # arbitrary iteration: the position is any value in [0, len), every other loop-carried variable is arbitrary
    mod, heapw = set(), []
    self.assigned_js(loop['body'], mod, heapw)
    for nme in mod:
        if nme in st.env and nme != '_ref':
            st.env[nme] = self.js_havoc(st, st.env[nme], nme) if not isinstance(st.env[nme], type(self.ev(st, {'type': 'Identifier', 'name': 'undefined', 'loc': loop['loc']}))) else fresh('lv.' + nme)
    for nme in mod:
        v = st.env.get(nme)
        if isinstance(v, z3.ExprRef) and v.sort() == I:       # loop-carried Go variables of kind int / rune: 32-bit values
            st.pc.append(z3.And(v >= -TWO31, v < TWO31)); self.know(v, -TWO31, TWO31 - 1)
    pos = fresh('pos')
    st.pc.append(z3.And(pos >= 0, pos < s.len))
    st.env['_i'] = pos
    env0 = gospec_env(self, st, {'s': s, 'p': pos})
    wantR = self.sev(env0, speclang.parse_expr('decR(s, p)'))
    wantW = self.sev(env0, speclang.parse_expr('decW(s, p)'))
    def run(state):
        self.stmt(state, loop['body'])
        return None
    n = 0
    for (how, state, info) in self.run_paths(st, run):
        self.trace = ['exit', n]; n += 1
        if how == 'end':
            self.oblige(state, 'advances by the width of the rune', state.env['_i'] == pos + wantW)
            if ivar: self.oblige(state, 'index variable', state.env[ivar] == pos)
            if rvar: self.oblige(state, 'rune variable', state.env[rvar] == wantR)
        elif how == 'break':
            self.oblige(state, 'no early exit inside the string', z3.BoolVal(False))
        else:
            self.oblige(state, 'no %s inside the loop body' % how, z3.BoolVal(False))
    self.trace = []
PatternExec.verify_range_case = _verify_range_case

def run_c14(rep, spec, verbose=False, only=None):
    cases = c14_cases()
    rcases = RANGE_CASES
    if only:
        cases = [c for c in cases if only in c.name]; rcases = [c for c in rcases if only in c[0]]
    gosrc = 'package main\n\nfunc main() {}\n\n' + '\n'.join([c.gosrc for c in cases] + [c[1] for c in rcases]) + '\n'
    with tempfile.TemporaryDirectory(prefix='gvc-pat-') as td:
        keep = os.path.join(td, 'pkg.js')
        out, err = e2e.run(gosrc, 'console.log("compiled")', keep=keep)
        if out is None or not os.path.exists(keep):
            rep.undecided.append(('C14 pattern cases', 'the real compiler did not produce output: %s' % (err or '')[-400:]))
            return []
        files = [os.path.join(props_repo(), 'compiler', 'prelude', f) for f in ('prelude.js', 'numeric.js', 'types.js', 'goroutines.js', 'jsmapping.js')] + [keep]
        dump = run_jsdump(files)
    emitted = find_emitted(dump['pkg.js']['program'], {c.name for c in cases} | {c[0] for c in rcases})
    ex = PatternExec(dump, spec)
    ex.load_axioms()
    for c in cases:
        fn = emitted.get(c.name)
        before = len(ex.obls)
        try:
            if fn is None: raise Unsupported('function not found in the emitted package')
            ex.verify_spec_case(c, fn)
            rep.functions.append('emitted ' + c.name)
        except (Unsupported, KeyError, RecursionError, AttributeError, TypeError, IndexError, z3.Z3Exception) as e:
            del ex.obls[before:]
            rep.undecided.append(('pattern ' + c.name, '%s: %s' % (type(e).__name__, e)))
    for (name, src_, ivar, rvar) in rcases:
        fn = emitted.get(name)
        before = len(ex.obls)
        try:
            if fn is None: raise Unsupported('function not found in the emitted package')
            ex.verify_range_case(name, fn, ivar, rvar)
            rep.functions.append('emitted ' + name)
        except (Unsupported, KeyError, RecursionError, AttributeError, TypeError, IndexError, z3.Z3Exception) as e:
            del ex.obls[before:]
            rep.undecided.append(('pattern ' + name, '%s: %s' % (type(e).__name__, e)))
    rep.assumed |= ex.assumed
    return ex.obls

from . import speclang


# ---------------------------------------------------------------------------------------------------------------------
# C07, translator half: value transfers copy.  GopherJS represents struct and array values as JavaScript objects, so a Go
# value is copied only where the translator emits $clone (or a constructor).  Proof rule V-FRESH: in the emitted code of a
# function, if every operand at a *transfer point* of a struct/array-typed VALUE (argument of a call, element of a
# composite literal or of a variadic argument slice, value sent on a channel -- also from a select case --, value stored
# in a map, initial value of a second variable, range value) is a fresh object -- `$clone(e, T)`, a constructor call, a
# literal --, then no two Go variables of value type share a JavaScript object, which is Go's value semantics.  The side
# condition is checked on the code the real compiler emits for a family of functions that put a struct / array value at
# each kind of transfer point; pointer-typed operands (negative controls) must NOT be required to be copies.
class VCase:
    def __init__(self, name, gosrc, sinks=(), locals_=(), note='', check=None, ctor_args=None, methods=(), box=False, table=None, methodval=False):
        self.name, self.gosrc, self.sinks, self.locals, self.note = name, gosrc, tuple(sinks), tuple(locals_), note
        self.box = box            # the function returns its value-typed operand boxed into an interface
        self.table = table        # (type, method): the case is the function assigned to <type>.prototype.<method> in the emitted package
        self.methodval = methodval    # the function takes a method value of a value-receiver method of its struct operand
        self.ctor_args, self.methods = ctor_args, tuple(methods)   # (constructor name, value-typed argument indexes); value-receiver methods
        self.check = check        # (JavaScript expression over the compiled package P, value Go's semantics gives): the replay

C07_PRELUDE_GO = '''
type S struct{ x, y int }
type A [3]int
type W struct{ s S; a A }
func sink(s S) { s.x = 99 }
func asink(a A) { a[0] = 99 }
func vsink(ss ...S) { ss[0].x = 99; if len(ss) > 1 { ss[1].x = 98 } }
func psink(p *S) {}
func wsink(w W) { w.s.x = 99 }
func (s S) Mut() { s.x = 99 }
func (s S) Inc() int { s.x++; return s.x }
func (a A) AMut() { a[0] = 99 }
'''

def c07_cases():
    C = []
    C.append(VCase('V_Assign', 'func V_Assign(a S) S { b := a; b.x = 7; return a }', locals_=('b',), check=('P.V_Assign(new P.S.ptr(1, 2)).x', '1')))
    C.append(VCase('V_ArrAssign', 'func V_ArrAssign(a A) A { b := a; b[0] = 7; return a }', locals_=('b',), check=('P.V_ArrAssign([1, 2, 3])[0]', '1')))
    C.append(VCase('V_Deref', 'func V_Deref(p *S) int { a := *p; a.x = 3; return p.x }', locals_=('a',), check=('P.V_Deref(new P.S.ptr(1, 2))', '1')))
    C.append(VCase('V_Pass', 'func V_Pass(a S) int { sink(a); return a.x }', sinks=('sink',), check=('P.V_Pass(new P.S.ptr(1, 2))', '1')))
    C.append(VCase('V_PassArr', 'func V_PassArr(a A) int { asink(a); return a[0] }', sinks=('asink',), check=('P.V_PassArr([1, 2, 3])', '1')))
    C.append(VCase('V_PassNested', 'func V_PassNested(w W) int { wsink(w); return w.s.x }', sinks=('wsink',), check=('P.V_PassNested(new P.W.ptr(new P.S.ptr(1, 2), [1, 2, 3]))', '1')))
    C.append(VCase('V_PassField', 'func V_PassField(w *W) int { sink(w.s); return w.s.x }', sinks=('sink',), check=('P.V_PassField(new P.W.ptr(new P.S.ptr(1, 2), [1, 2, 3]))', '1')))
    C.append(VCase('V_PassElem', 'func V_PassElem(ss []S) int { sink(ss[0]); return ss[0].x }', sinks=('sink',)))
    C.append(VCase('V_Variadic', 'func V_Variadic(a, b S) int { vsink(a, b); return a.x*1000 + b.x }', sinks=('vsink',), check=('P.V_Variadic(new P.S.ptr(1, 2), new P.S.ptr(3, 4))', '1003')))
    C.append(VCase('V_Send', 'func V_Send(ch chan S, a S) { ch <- a }'))
    C.append(VCase('V_SelSend', 'func V_SelSend(ch chan S, a S) { select { case ch <- a: default: } }'))
    C.append(VCase('V_Lit', 'func V_Lit(a S) []S { return []S{a} }', check=('(function(){ var a = new P.S.ptr(1, 2); var r = P.V_Lit(a); a.x = 9; return r.$array[r.$offset].x; })()', '1')))
    C.append(VCase('V_LitArrOfS', 'func V_LitArrOfS(a S) [2]S { return [2]S{a, a} }', check=('(function(){ var a = new P.S.ptr(1, 2); var r = P.V_LitArrOfS(a); a.x = 9; r[0].x = 5; return r[1].x; })()', '1')))
    C.append(VCase('V_MapIns', 'func V_MapIns(m map[int]S, a S) { m[1] = a }'))
    C.append(VCase('V_RangeVal', 'func V_RangeVal(ss []S) int { t := 0; for _, s := range ss { s.x = 5; t += s.x }; return t }', locals_=('s',)))
    # (append is not a transfer point of the translator: $append copies the elements in the runtime, $internalAppend -> $copyArray)
    C.append(VCase('V_StructLit', 'func V_StructLit(a S, b A) W { return W{s: a, a: b} }', ctor_args=('W', (0, 1)),
                   check=('(function(){ var a = new P.S.ptr(1, 2); var w = P.V_StructLit(a, [1, 2, 3]); a.x = 9; return w.s.x; })()', '1')))
    C.append(VCase('V_StructLitPos', 'func V_StructLitPos(a S, b A) W { return W{a, b} }', ctor_args=('W', (0, 1)),
                   check=('(function(){ var a = new P.S.ptr(1, 2); var w = P.V_StructLitPos(a, [1, 2, 3]); a.x = 9; return w.s.x; })()', '1')))
    C.append(VCase('V_ValueRecv', 'func V_ValueRecv(a S) int { a.Mut(); return a.x }', methods=('Mut',), check=('P.V_ValueRecv(new P.S.ptr(1, 2))', '1')))
    # boxing into an interface: the interface value holds a copy
    C.append(VCase('V_Box', 'func V_Box(a S) interface{} { return a }', box=True,
                   check=('(function(){ var a = new P.S.ptr(1, 2); var r = P.V_Box(a); a.x = 9; return r.$val.x; })()', '1')))
    C.append(VCase('V_BoxArr', 'func V_BoxArr(a A) interface{} { return a }', box=True,
                   check=('(function(){ var a = [1, 2, 3]; var r = P.V_BoxArr(a); a[0] = 9; return r.$val[0]; })()', '1')))
    # range over an array value with a value variable: the range expression is evaluated once, i.e. the loop runs over a copy
    C.append(VCase('V_RangeArr', 'func V_RangeArr(a A) int { t := 0; for _, v := range a { a[2] = 100; t += v }; return t }', locals_=('_ref',),
                   check=('P.V_RangeArr([1, 2, 3])', '6')))
    # a value-receiver method reached through an interface (or a pointer) works on a copy of the receiver: the method
    # table entries the compiler installs for the types S (proxy to the pointer type's method) and A (primary function)
    C.append(VCase('V_IfaceRecv', '', table=('S', 'Mut'), methods=('Mut',),
                   check=('(function(){ var a = new P.S.ptr(1, 2); var b = new P.S(a); b.Mut(); return a.x; })()', '1')))
    C.append(VCase('V_IfaceRecvArr', '', table=('A', 'AMut'), locals_=('a',),
                   check=('(function(){ var a = [1, 2, 3]; var b = new P.A(a); b.AMut(); return a[0]; })()', '1')))
    # a method value of a value-receiver method: every call works on its own copy of the bound receiver (the receiver is bound
    # by a run-time helper; a helper that binds the method to one object -- $methodVal -- shares that object between the calls)
    C.append(VCase('V_MethodVal', 'func V_MethodVal(a S) int { f := a.Inc; return f()*10 + f() }', methodval=True,
                   check=('P.V_MethodVal(new P.S.ptr(1, 2))', '22')))
    # negative control: pointers are passed as they are
    C.append(VCase('V_PtrPass', 'func V_PtrPass(p *S) int { psink(p); return p.x }', sinks=(), note='control'))
    return C

def _is_fresh_expr(n):
    """syntactic forms that denote an object no other Go variable refers to"""
    t = n.get('type')
    if t == 'CallExpression':
        c = n['callee']
        if c.get('type') == 'Identifier' and c['name'] == '$clone':
            return True
        if c.get('type') == 'MemberExpression' and not c.get('computed') and c['property'].get('name') in ('zero',):
            return True
        return False
    if t == 'NewExpression':
        return True
    if t in ('ObjectExpression', 'ArrayExpression', 'Literal', 'TemplateLiteral'):
        return True
    if t == 'ConditionalExpression':
        return _is_fresh_expr(n['consequent']) and _is_fresh_expr(n['alternate'])
    if t == 'SequenceExpression':
        return _is_fresh_expr(n['expressions'][-1])
    return False

def _src(n):
    loc = n.get('loc') or {}
    return '%s:%s' % ((loc.get('start') or {}).get('line'), (loc.get('start') or {}).get('column'))

def c07_transfer_points(fn, case):
    """(description, operand node) for every transfer point of a value-typed operand in the emitted function"""
    out = []
    def walk(n):
        if isinstance(n, list):
            for x in n: walk(x)
            return
        if not isinstance(n, dict):
            return
        t = n.get('type')
        if t == 'CallExpression':
            c = n['callee']
            if c.get('type') == 'Identifier' and c['name'] in case.sinks:
                for i, a in enumerate(n['arguments']):
                    if a.get('type') == 'NewExpression' and a['arguments'] and a['arguments'][0].get('type') == 'ArrayExpression':
                        for j, el in enumerate(a['arguments'][0]['elements']):       # variadic arguments packed into a slice
                            out.append(('variadic argument %d of %s' % (j, c['name']), el))
                    else:
                        out.append(('argument %d of %s' % (i, c['name']), a))
            if c.get('type') == 'Identifier' and c['name'] == '$send' and len(n['arguments']) >= 2:
                out.append(('value sent on a channel', n['arguments'][1]))
            if c.get('type') == 'Identifier' and c['name'] == '$select' and n['arguments'] and n['arguments'][0].get('type') == 'ArrayExpression':
                for k, cs in enumerate(n['arguments'][0]['elements']):
                    if cs and cs.get('type') == 'ArrayExpression' and len(cs['elements']) == 2:
                        out.append(('value sent in select case %d' % k, cs['elements'][1]))
            if c.get('type') == 'MemberExpression' and not c.get('computed') and c['property'].get('name') == 'set' and len(n['arguments']) == 2 \
               and n['arguments'][1].get('type') == 'ObjectExpression':
                for pr in n['arguments'][1]['properties']:
                    if pr.get('key', {}).get('name') == 'v':
                        out.append(('value stored in a map', pr['value']))
        if t == 'NewExpression' and n['arguments'] and n['arguments'][0].get('type') == 'ArrayExpression' \
           and n['callee'].get('type') == 'Identifier' and n['callee']['name'].startswith(('sliceType', 'arrayType')) and not case.sinks:
            for j, el in enumerate(n['arguments'][0]['elements']):
                out.append(('element %d of a composite literal' % j, el))
        if t == 'ReturnStatement' and n.get('argument') and n['argument'].get('type') == 'CallExpression' and n['argument']['callee'].get('name') == '$toNativeArray':
            a = n['argument']['arguments']
            if len(a) >= 2 and a[1].get('type') == 'ArrayExpression':
                for j, el in enumerate(a[1]['elements']):
                    out.append(('element %d of an array literal' % j, el))
        if t == 'NewExpression' and case.ctor_args and n['callee'].get('type') == 'MemberExpression' and n['callee']['object'].get('name') == case.ctor_args[0] \
           and n['callee']['property'].get('name') == 'ptr':
            for i in case.ctor_args[1]:
                if i < len(n['arguments']):
                    out.append(('field %d of a %s literal' % (i, case.ctor_args[0]), n['arguments'][i]))
        if t == 'CallExpression' and n['callee'].get('type') == 'MemberExpression' and not n['callee'].get('computed') \
           and n['callee']['property'].get('name') in case.methods:
            out.append(('receiver of the value method %s' % n['callee']['property']['name'], n['callee']['object']))
        if case.methodval and t == 'CallExpression' and n['callee'].get('type') == 'Identifier' and n['callee']['name'].startswith('$methodVal') and n['arguments']:
            # the bound receiver is shared by all calls of a function made by $methodVal (method.bind(recv)); only a helper that
            # copies per call makes each call independent: the helper's name is the operand inspected here
            out.append(('receiver bound by %s' % n['callee']['name'], {'type': 'CallExpression', 'callee': {'type': 'Identifier', 'name': '$clone'}, 'loc': n.get('loc')}
                        if n['callee']['name'] == '$methodValCopy' else n['arguments'][0] if False else {'type': 'Identifier', 'name': n['callee']['name'], 'loc': n.get('loc')}))
        if case.box and t == 'ReturnStatement' and n.get('argument') and n['argument'].get('type') == 'NewExpression' and n['argument']['arguments']:
            out.append(('value boxed into an interface', n['argument']['arguments'][0]))
        if t == 'AssignmentExpression' and n['operator'] == '=' and n['left'].get('type') == 'Identifier' and n['left']['name'] in case.locals:
            out.append(('initial value of %s' % n['left']['name'], n['right']))
        if t == 'VariableDeclarator' and n.get('init') and n['id'].get('type') == 'Identifier' and n['id']['name'] in case.locals:
            out.append(('initial value of %s' % n['id']['name'], n['init']))
        for k, v in n.items():
            if k != 'loc' and isinstance(v, (dict, list)): walk(v)
    walk(fn.get('body'))
    return out

def _methodvalcopy_copies():
    dump = run_jsdump([os.path.join(props_repo(), 'compiler', 'prelude', 'prelude.js')])
    fn = _find_prelude_fn(dump['prelude.js']['program'], '$methodValCopy')
    if fn is None or not fn.get('params') or fn['params'][0].get('type') != 'Identifier':
        return False
    recv = fn['params'][0]['name']
    ok = []
    def walk(n, inner):
        if isinstance(n, list):
            for x in n: walk(x, inner)
        elif isinstance(n, dict):
            t = n.get('type')
            if inner and t == 'CallExpression' and n['callee'].get('type') == 'MemberExpression' and n['callee'].get('computed'):
                o = n['callee']['object']
                if o.get('type') == 'CallExpression' and o['callee'].get('name') == '$clone' and o['arguments'] and o['arguments'][0].get('name') == recv:
                    ok.append(True)
            for k, v in n.items():
                if k != 'loc' and isinstance(v, (dict, list)):
                    walk(v, inner or (t in ('FunctionExpression', 'ArrowFunctionExpression') and n is not fn))
    walk(fn['body'], False)
    return bool(ok)

def c07_replay(case, gosrc):
    """run the case through the real compiler and node: the value Go's semantics gives against what the emitted code gives"""
    js, want = case.check
    out, err = e2e.run(gosrc, 'console.log("GVCVAL " + String(%s));' % js)
    got = None
    for line in (out or '').splitlines():
        if line.startswith('GVCVAL '):
            got = line[7:].strip()
    res = {'harness': 'the real compiler + prelude under node', 'expression': js, 'go_semantics': want, 'emitted_code_gives': got, 'violated_clauses': []}
    if got is None:
        res['violates'] = False; res['note'] = 'replay produced no value: %s' % ((err or '')[-300:],)
        return res
    if got != want:
        res['violated_clauses'].append('value semantics: %s == %s in Go, the emitted code gives %s' % (js, want, got))
    res['violates'] = bool(res['violated_clauses'])
    return res

def run_c07(rep, spec, verbose=False, only=None):
    from .smt import Obligation
    cases = c07_cases()
    if only: cases = [c for c in cases if only in c.name]
    if not cases:
        return []
    gosrc = 'package main\n\nfunc main() {}\n' + C07_PRELUDE_GO + '\n' + '\n'.join(c.gosrc for c in cases if c.gosrc) + '\n'
    with tempfile.TemporaryDirectory(prefix='gvc-pat-') as td:
        keep = os.path.join(td, 'pkg.js')
        out, err = e2e.run(gosrc, 'console.log("compiled")', keep=keep)
        if out is None or not os.path.exists(keep):
            rep.undecided.append(('C07 transfer-point cases', 'the real compiler did not produce output: %s' % (err or '')[-400:]))
            return []
        dump = run_jsdump([keep])
    emitted = find_emitted(dump['pkg.js']['program'], {c.name for c in cases})
    obls = []
    def table_entry(prog, ty, meth):
        hits = []
        def walk(n):
            if isinstance(n, list):
                for x in n: walk(x)
            elif isinstance(n, dict):
                if n.get('type') == 'AssignmentExpression' and n['left'].get('type') == 'MemberExpression' and not n['left'].get('computed') \
                   and n['left']['property'].get('name') == meth and n['left']['object'].get('type') == 'MemberExpression' \
                   and n['left']['object']['property'].get('name') == 'prototype' and n['left']['object']['object'].get('name') == ty \
                   and n['right'].get('type') in ('FunctionExpression', 'ArrowFunctionExpression'):
                    hits.append(n['right'])
                for k, v in n.items():
                    if k != 'loc' and isinstance(v, (dict, list)): walk(v)
        walk(prog)
        return hits[0] if hits else None
    for c in cases:
        fn = table_entry(dump['pkg.js']['program'], *c.table) if c.table else emitted.get(c.name)
        if fn is None:
            rep.undecided.append(('pattern ' + c.name, 'function not found in the emitted package')); continue
        pts = c07_transfer_points(fn, c)
        if c.methodval and any(n.get('callee', {}).get('name') == '$clone' and what.endswith('$methodValCopy') for what, n in pts):
            # the helper is trusted to copy per call only if its body says so: a function returned by it must call
            # $clone(<its receiver parameter>, ...)[name](...)
            if not _methodvalcopy_copies():
                pts = [(what + ' (the helper does not copy per call)', {'type': 'Identifier', 'name': '$methodValCopy', 'loc': n.get('loc')}) for what, n in pts]
        if not pts and c.note != 'control':
            rep.undecided.append(('pattern ' + c.name, 'no transfer point recognised in the emitted code (the shape of the emitted code changed)')); continue
        rep.functions.append('emitted ' + c.name)
        for k, (what, node) in enumerate(pts):
            ok = _is_fresh_expr(node)
            o = Obligation('pattern %s/fresh-operand#%d (%s)' % (c.name, k + 1, what), [], z3.BoolVal(ok), 'proof', func='pattern ' + c.name, src=_src(node))
            o.status, o.answer, o.solver = ('discharged', 'unsat', 'rule V-FRESH (operand is a copy)') if ok else ('failed', 'sat', 'rule V-FRESH')
            if not ok:
                o.output = 'operand at %s is not a fresh copy: node type %s' % (_src(node), node.get('type'))
                o.model = {}
                if c.check:
                    o.meta['replayer'] = (lambda ob, model, c=c, gosrc=gosrc: c07_replay(c, gosrc))
            obls.append(o)
    rep.extra_trusted.append('proof rule V-FRESH (value transfers copy): soundness argued in gvc/core/patterns.py, side conditions checked on the emitted code')
    return obls


# ---------------------------------------------------------------------------------------------------------------------
# C08, recover(): `$recover` decides "called directly by the deferred function" by comparing JavaScript call depths, so every
# JavaScript frame the translator or the prelude interposes between a deferred call and the Go method it stands for must take
# itself out of the count ($stackDepthOffset-- before the call, ++ in a finally).  Rule R-FRAME, checked on the method table
# entry the real compiler emits for a value-receiver method of a struct type (the forwarding function) and on the wrapper
# functions of the prelude ($methodExpr, $ifaceMethodExpr, $methodValCopy); a violation is replayed with a real build.
R_FRAME_GO = '''
type R struct{ n int }
func (r R) Rec() bool { return recover() != nil }
'''
R_FRAME_DEMO = '''package main

type R struct{ name string }

func (r R) rec() { println(r.name, recover() != nil) }

type I interface{ rec() }

func a() { r := R{"value"}; defer r.rec(); panic("M") }
func b() { var i I = R{"interface"}; defer i.rec(); panic("M") }
func c() { r := R{"methodvalue"}; f := r.rec; defer f(); panic("M") }
func d() { r := R{"methodexpr"}; defer R.rec(r); panic("M") }
func e() { r := &R{"viapointer"}; defer r.rec(); panic("M") }

func main() {
	for _, fn := range []func(){a, b, c, d, e} {
		func() {
			defer func() { recover() }()
			fn()
		}()
	}
}
'''

def _brackets_depth(fn):
    """the function body has `$stackDepthOffset--` before a try whose finalizer has `$stackDepthOffset++`"""
    body = fn.get('body', {})
    stmts = body.get('body') if body.get('type') == 'BlockStatement' else None
    if not stmts: return False
    def is_upd(s, op):
        e = s.get('expression') if s.get('type') == 'ExpressionStatement' else None
        return bool(e) and e.get('type') == 'UpdateExpression' and e.get('operator') == op and e['argument'].get('name') == '$stackDepthOffset'
    for i, st in enumerate(stmts):
        if is_upd(st, '--'):
            for t in stmts[i + 1:]:
                if t.get('type') == 'TryStatement' and t.get('finalizer') and any(is_upd(x, '++') for x in t['finalizer']['body']):
                    return True
    return False

def _inner_functions(fn):
    out = []
    def walk(n):
        if isinstance(n, list):
            for x in n: walk(x)
        elif isinstance(n, dict):
            if n.get('type') in ('FunctionExpression', 'ArrowFunctionExpression') and n is not fn: out.append(n)
            for k, v in n.items():
                if k != 'loc' and isinstance(v, (dict, list)): walk(v)
    walk(fn.get('body'))
    return out

def r_frame_replay():
    from . import nativesreplay as nr
    try:
        out = nr.run_program(R_FRAME_DEMO)
    except Exception as e:
        return {'violates': False, 'note': 'real build failed: %s' % str(e)[-300:]}
    bad = [l for l in out.splitlines() if l.strip().endswith('false')]
    res = {'harness': 'gopherjs built from /repo, program compiled with it and run under node', 'program': R_FRAME_DEMO, 'output': out.strip(), 'violated_clauses': []}
    if bad:
        res['violated_clauses'].append('recover() called directly by a deferred value-receiver method returned nil: %s (Go prints true on every line)' % '; '.join(bad))
    res['violates'] = bool(bad)
    return res

def run_c08_frames(rep, spec, verbose=False, only=None):
    from .smt import Obligation
    if only and 'R_FRAME' not in only and 'frame' not in only.lower():
        return []
    gosrc = 'package main\n\nfunc main() {}\n' + R_FRAME_GO
    with tempfile.TemporaryDirectory(prefix='gvc-pat-') as td:
        keep = os.path.join(td, 'pkg.js')
        out, err = e2e.run(gosrc, 'console.log("compiled")', keep=keep)
        if out is None or not os.path.exists(keep):
            rep.undecided.append(('pattern R_FRAME', 'the real compiler did not produce output: %s' % (err or '')[-300:])); return []
        dump = run_jsdump([keep, os.path.join(props_repo(), 'compiler', 'prelude', 'prelude.js')])
    sites = []
    # the forwarding function of the value type: R.prototype.Rec = function(...$args) { ... this.$val ... }
    hits = []
    def walk(n):
        if isinstance(n, list):
            for x in n: walk(x)
        elif isinstance(n, dict):
            if n.get('type') == 'AssignmentExpression' and n['left'].get('type') == 'MemberExpression' and n['left']['property'].get('name') == 'Rec' \
               and n['left']['object'].get('type') == 'MemberExpression' and n['left']['object']['property'].get('name') == 'prototype' \
               and n['left']['object']['object'].get('name') == 'R' and n['right'].get('type') in ('FunctionExpression', 'ArrowFunctionExpression'):
                hits.append(n['right'])
            for k, v in n.items():
                if k != 'loc' and isinstance(v, (dict, list)): walk(v)
    walk(dump['pkg.js']['program'])
    if not hits:
        rep.undecided.append(('pattern R_FRAME', 'the method table entry R.prototype.Rec was not found in the emitted package')); return []
    sites.append(('method table entry of the value type (forwarding function)', hits[0]))
    for helper in ('$methodExpr', '$ifaceMethodExpr', '$methodValCopy'):
        fn = _find_prelude_fn(dump['prelude.js']['program'], helper)
        if fn is None:
            if helper == '$methodValCopy': continue          # (the helper need not exist)
            rep.undecided.append(('pattern R_FRAME', '%s not found in prelude.js' % helper)); continue
        inner = _inner_functions(fn)
        if not inner:
            rep.undecided.append(('pattern R_FRAME', '%s has no wrapper function' % helper)); continue
        sites.append(('wrapper made by %s' % helper, inner[0]))
    obls = []
    rep.functions.append('emitted R.prototype.Rec + prelude method wrappers')
    for what, fn in sites:
        ok = _brackets_depth(fn)
        o = Obligation('pattern R_FRAME/%s takes its frame out of the depth count' % what, [], z3.BoolVal(ok), 'proof', func='pattern R_FRAME', src=_src(fn))
        o.status, o.answer, o.solver = ('discharged', 'unsat', 'rule R-FRAME') if ok else ('failed', 'sat', 'rule R-FRAME')
        if not ok:
            o.output = 'the wrapper at %s calls through without $stackDepthOffset--/++' % _src(fn); o.model = {}
            o.meta['replayer'] = (lambda ob, model: r_frame_replay())
        obls.append(o)
    rep.extra_trusted.append('proof rule R-FRAME (interposed JavaScript frames are taken out of the depth count that recover() uses): argued in gvc/core/patterns.py')
    return obls

# ---------------------------------------------------------------------------------------------------------------------
# C06: 64-bit integer -> float conversions.  The translator emits `$flatten64(x)` (float64) or `$fround($flatten64(x))`
# (float32) and $flatten64 is `x.$high * 4294967296 + x.$low`.  Both shapes are checked on the ESTree of the current tree;
# the value is then the IEEE-754 term below and is compared, for ALL 2^64 operands, with Go's conversion (the integer
# rounded once to the target format).
def _strip_parens(n):
    while n.get('type') in ('ParenthesizedExpression',) or (n.get('type') == 'SequenceExpression' and len(n['expressions']) == 1):
        n = n.get('expression') or n['expressions'][0]
    return n

def _is_call(n, name, nargs=1):
    n = _strip_parens(n)
    return n.get('type') == 'CallExpression' and n['callee'].get('type') == 'Identifier' and n['callee']['name'] == name and len(n['arguments']) == nargs

def run_c06_int64_float(rep, spec, verbose=False, only=None):
    from .smt import Obligation
    cases = [('I64F_int64_to_float32', 'int64', 'float32'), ('I64F_uint64_to_float32', 'uint64', 'float32'),
             ('I64F_int64_to_float64', 'int64', 'float64'), ('I64F_uint64_to_float64', 'uint64', 'float64')]
    if only: cases = [c for c in cases if only in c[0]]
    if not cases:
        return []
    gosrc = 'package main\n\nfunc main() {}\n\n' + '\n'.join('func %s(x %s) %s { return %s(x) }' % (n, ik, fk, fk) for n, ik, fk in cases) + '\n'
    with tempfile.TemporaryDirectory(prefix='gvc-pat-') as td:
        keep = os.path.join(td, 'pkg.js')
        out, err = e2e.run(gosrc, 'console.log("compiled")', keep=keep)
        if out is None or not os.path.exists(keep):
            rep.undecided.append(('C06 int64->float cases', 'the real compiler did not produce output: %s' % (err or '')[-400:]))
            return []
        dump = run_jsdump([os.path.join(props_repo(), 'compiler', 'prelude', 'numeric.js'), keep])
    # $flatten64 must still be  x.$high * 4294967296 + x.$low
    fl = find_emitted(dump['numeric.js']['program'], {'$flatten64'}).get('$flatten64')
    if fl is None:
        def walk(n, acc):
            if isinstance(n, list):
                for x in n: walk(x, acc)
            elif isinstance(n, dict):
                if n.get('type') == 'VariableDeclarator' and n['id'].get('name') == '$flatten64': acc.append(n['init'])
                for k, v in n.items():
                    if k != 'loc' and isinstance(v, (dict, list)): walk(v, acc)
        acc = []; walk(dump['numeric.js']['program'], acc)
        fl = acc[0] if acc else None
    ok_shape = False
    if fl is not None and fl.get('params') and fl['params'][0].get('name'):
        pn = fl['params'][0]['name']
        body = fl['body']
        ret = body['body'][0]['argument'] if body.get('type') == 'BlockStatement' and body['body'] and body['body'][0].get('type') == 'ReturnStatement' else body
        ret = _strip_parens(ret)
        def mem(n, f):
            n = _strip_parens(n)
            return n.get('type') == 'MemberExpression' and not n.get('computed') and n['object'].get('name') == pn and n['property'].get('name') == f
        if ret.get('type') == 'BinaryExpression' and ret['operator'] == '+' and mem(ret['right'], '$low'):
            l = _strip_parens(ret['left'])
            if l.get('type') == 'BinaryExpression' and l['operator'] == '*' and mem(l['left'], '$high') and l['right'].get('type') == 'Literal' and l['right'].get('value') == 4294967296:
                ok_shape = True
    if not ok_shape:
        rep.undecided.append(('pattern I64F_*', '$flatten64 is no longer `x.$high * 4294967296 + x.$low`: the conversion obligations do not apply'))
        return []
    emitted = find_emitted(dump['pkg.js']['program'], {c[0] for c in cases})
    obls = []
    for name, ik, fk in cases:
        fn = emitted.get(name)
        if fn is None:
            rep.undecided.append(('pattern ' + name, 'function not found in the emitted package')); continue
        stmts = [s for s in fn['body']['body'] if s.get('type') != 'VariableDeclaration']
        if len(stmts) != 1 or stmts[0].get('type') != 'ReturnStatement':
            rep.undecided.append(('pattern ' + name, 'emitted body is not a single return')); continue
        e = _strip_parens(stmts[0]['argument'])
        shape = None
        if _is_call(e, '$flatten64') and _strip_parens(e['arguments'][0]).get('name') == 'x': shape = 'flat'
        elif _is_call(e, '$fround') and _is_call(e['arguments'][0], '$flatten64'): shape = 'fround'
        elif _is_call(e, '$flatten64f32') and _strip_parens(e['arguments'][0]).get('name') == 'x': shape = 'helper'
        if shape is None:
            rep.undecided.append(('pattern ' + name, 'emitted conversion has a shape the obligation does not cover')); continue
        signed = (ik == 'int64')
        hi, lo = z3.BitVec('x.high', 32), z3.BitVec('x.low', 32)
        x64 = z3.Concat(hi, lo)
        rm = z3.RNE()
        hif = z3.fpSignedToFP(rm, hi, F64) if signed else z3.fpUnsignedToFP(rm, hi, F64)
        lof = z3.fpUnsignedToFP(rm, lo, F64)
        flat = z3.fpAdd(rm, z3.fpMul(rm, hif, z3.FPVal(4294967296.0, F64)), lof)
        got = fround(flat) if shape == 'fround' else flat
        if shape == 'helper':
            # the conversion helper of the prelude: its body is executed symbolically (IEEE doubles, ECMA-262 bit operators)
            hf = _find_prelude_fn(dump['numeric.js']['program'], '$flatten64f32')
            if hf is None or len(hf.get('params', [])) != 1 or hf['params'][0].get('type') != 'Identifier' or hf['body'].get('type') != 'BlockStatement':
                rep.undecided.append(('pattern ' + name, '$flatten64f32 not found in numeric.js (or not a one-parameter function with a block body)')); continue
            try:
                paths = _exec_i64_helper(dump, spec, name, hf, hif, lof)
            except (Unsupported, KeyError, RecursionError, AttributeError, TypeError, IndexError, z3.Z3Exception) as ex_:
                rep.undecided.append(('pattern ' + name, '%s: %s' % (type(ex_).__name__, ex_))); continue
        else:
            paths = [('', [], got)]
        if fk == 'float32':
            want = z3.fpToFP(rm, z3.fpSignedToFP(rm, x64, F32) if signed else z3.fpUnsignedToFP(rm, x64, F32), F64)
        else:
            want = z3.fpSignedToFP(rm, x64, F64) if signed else z3.fpUnsignedToFP(rm, x64, F64)
        rep.functions.append('emitted ' + name + (' + prelude $flatten64f32' if shape == 'helper' else ''))
        rp = (lambda ob, model, name=name, ik=ik, fk=fk, gosrc=gosrc: i64f_replay(name, ik, fk, gosrc, ob))
        # one bit-blasted query takes 15-55 s on every installed solver for the signed conversions; split on the range of
        # the high word (each case a few seconds with cvc5) and prove the split exhaustive as an obligation of its own
        if signed:
            bs = [0, 1 << 7, 1 << 14, 1 << 21, 1 << 24, 1 << 27]
            rngs = [('neg%d' % i, z3.And(hi < (-a if a else 0), hi >= -b if b else True)) for i, (a, b) in enumerate(zip(bs, bs[1:] + [None]))]
            rngs += [('pos%d' % i, z3.And(hi >= a, hi < b if b else True)) for i, (a, b) in enumerate(zip(bs, bs[1:] + [None]))]
        else:
            bs = [0, 1 << 7, 1 << 14, 1 << 21, 1 << 27]
            rngs = [('u%d' % i, z3.And(z3.UGE(hi, a), z3.ULT(hi, b) if b else True)) for i, (a, b) in enumerate(zip(bs, bs[1:] + [None]))]
        for (pn, pc, r) in paths:
            for cn, c in rngs:
                o = Obligation('pattern %s/value%s[%s]' % (name, pn, cn), [c] + list(pc), r == want, 'proof', func='pattern ' + name)
                o.meta['replayer'] = rp; o.meta['solvers'] = ['cvc5', 'z3', 'z3-new']; o.meta['timeout'] = 30
                obls.append(o)
        obls.append(Obligation('pattern %s/value[cases-exhaustive]' % name, [], z3.Or(*[c for _, c in rngs]), 'proof', func='pattern ' + name))
    return obls

def _find_prelude_fn(program, name):
    acc = []
    def walk(n):
        if isinstance(n, list):
            for x in n: walk(x)
        elif isinstance(n, dict):
            if n.get('type') == 'VariableDeclarator' and n.get('id', {}).get('name') == name and n.get('init') and n['init'].get('type') in ('ArrowFunctionExpression', 'FunctionExpression'):
                acc.append(n['init'])
            for k, v in n.items():
                if k != 'loc' and isinstance(v, (dict, list)): walk(v)
    walk(program)
    return acc[0] if acc else None

def _exec_i64_helper(dump, spec, name, hf, hif, lof):
    """every path of the prelude helper on the pair {$high, $low}: (path tag, path condition, returned double)"""
    ex = PatternExec(dump, spec)
    reset_fresh()
    ex.known_ranges = {}; ex.u32view = {}; ex.dmcache = {}; ex.tzinfo = {}; ex._keep = []
    ex.mode = 'fp'
    fr = Frame('pattern ' + name, hf, None)
    fr.loops = {}; fr.loop_specs = {}
    ex.frame = fr; ex.loop_cache = {}
    st = State()
    st.env[hf['params'][0]['name']] = JSObj({'$high': hif, '$low': lof})
    entry = st.clone(); st.entry = entry; entry.entry = entry
    fr.replayer = None
    def run(state):
        ex.block(state, hf['body']['body'])
        return None
    out = []
    for n, (how, state, info) in enumerate(ex.run_paths(st, run)):
        if how != 'return' or not (isinstance(info[0], z3.ExprRef) and z3.is_fp(info[0])):
            raise Unsupported('$flatten64f32: a path that does not return a double (%s)' % how)
        out.append(('#path%d' % n, list(state.pc), info[0]))
    if ex.obls:
        raise Unsupported('$flatten64f32: side obligations are not expected in the helper (%s)' % ex.obls[0].name)
    return out

def i64f_replay(name, ik, fk, gosrc, ob):
    import numpy as np
    s = z3.Solver(); s.set('timeout', 30000); s.add(*ob.hyps); s.add(z3.Not(ob.goal))
    import signal
    signal.alarm(60); r = s.check(); signal.alarm(0)
    if r != z3.sat:
        return {'violates': False, 'note': 'in-process solver did not produce a model'}
    m = s.model()
    hi = m.eval(z3.BitVec('x.high', 32), model_completion=True).as_long()
    lo = m.eval(z3.BitVec('x.low', 32), model_completion=True).as_long()
    u = (hi << 32) | lo
    x = u - (1 << 64) if (ik == 'int64' and u >= (1 << 63)) else u
    def rne(v, bits):          # the integer rounded once (ties to even) to a format with `bits` significant bits, exactly
        m = abs(v); n = m.bit_length()
        if n > bits:
            sh = n - bits; q, r = m >> sh, m & ((1 << sh) - 1); half = 1 << (sh - 1)
            if r > half or (r == half and (q & 1)): q += 1
            m = q << sh
        return float(-m if v < 0 else m)
    want = rne(x, 24 if fk == 'float32' else 53)
    T = '$Int64' if ik == 'int64' else '$Uint64'
    out, err = e2e.run(gosrc, 'console.log("GVCVAL " + P.%s(mk64(%s, "%d")).toString());' % (name, T, x))
    got = None
    for line in (out or '').splitlines():
        if line.startswith('GVCVAL '): got = float(line[7:].strip())
    res = {'harness': 'the real compiler + prelude under node; reference: numpy correctly rounded conversion', 'input': {'x': x}, 'go_semantics': repr(want), 'emitted_code_gives': repr(got), 'violated_clauses': []}
    if got is None:
        res['violates'] = False; res['note'] = 'replay produced no value'
        return res
    if got != want:
        res['violated_clauses'].append('%s(%d) is %r in Go, the emitted code gives %r' % (fk, x, want, got))
    res['violates'] = bool(res['violated_clauses'])
    return res
