# Types, state, flatten/unflatten for the Go symbolic executor.
import z3
from .values import *

MAXLEN = 1 << 48      # no Go object exceeds the address space (runtime maxAlloc on 64-bit hosts)

class Unsupported(Exception):
    pass

class TypeTab:
    def __init__(self, table, word=64):
        self.t = table
        self.word = word          # 64 for the compiler's own code, 32 for code GopherJS compiles
    def __getitem__(self, tid):
        return self.t[tid]
    def kind(self, tid):
        return self.t[tid].get('k')
    def basic(self, tid):
        return self.t[tid].get('b')
    def intinfo(self, tid):
        b = self.t[tid].get('b')
        if b in INT_KINDS:
            w, s = INT_KINDS[b]
            if b in ('int', 'uint', 'uintptr'):
                w = self.word
            return w, s
        return None
    def is_string(self, tid):
        return self.t[tid].get('k') == 'basic' and self.t[tid].get('b') in ('string', 'untyped string')
    def is_bool(self, tid):
        return self.t[tid].get('k') == 'basic' and self.t[tid].get('b') in ('bool', 'untyped bool')
    def is_float(self, tid):
        return self.t[tid].get('k') == 'basic' and self.t[tid].get('b') in ('float64', 'float32', 'untyped float')
    def name(self, tid):
        return self.t[tid].get('named') or self.t[tid]['s']
    def fields(self, tid):
        return self.t[tid].get('f', [])

class State:
    def __init__(self):
        self.env = {}        # obj id -> value
        self.names = {}      # source name -> obj id (innermost binding)
        self.heap = {}       # (type name, field, comp) -> z3 array Ref -> sort
        self.ghost = {}      # ghost name -> z3 term / array
        self.pc = []
        self.guards = []     # short-circuit guards currently in force
        self.defers = []
        self.entry = None    # snapshot for old()
        self.results = {}    # named results: name -> obj id
        self.meta = {}
    def clone(self):
        s = State()
        memo = {}
        s.env = {k: copyval(v, memo) for k, v in self.env.items()}
        s.names = dict(self.names)
        s.heap = dict(self.heap)
        s.ghost = dict(self.ghost)
        s.pc = list(self.pc)
        s.guards = list(self.guards)
        s.defers = list(self.defers)
        s.entry = self.entry
        s.results = dict(self.results)
        s.meta = dict(self.meta)
        return s
    def assume(self, fact):
        if self.guards:
            self.pc.append(z3.Implies(z3.And(self.guards), fact))
        else:
            self.pc.append(fact)
    def hyps(self):
        return self.pc + self.guards

class Layout:
    """flatten / unflatten values of a Go type into lists of z3 terms."""
    def __init__(self, tt, mode='int'):
        self.tt, self.mode = tt, mode
    def scalar_sort(self, tid):
        t = self.tt[tid]
        k = t.get('k')
        if k == 'basic':
            b = t['b']
            if b in INT_KINDS:
                if self.mode == 'bv':
                    w, _ = self.tt.intinfo(tid)
                    return z3.BitVecSort(w or 64)
                return I
            if b in ('bool', 'untyped bool'):
                return B
            if b in ('float64', 'untyped float'):
                return F64
            if b == 'float32':
                return F32
            if b in ('untyped nil',):
                return I
            if b == 'unsafe.Pointer' or b == 'Pointer':
                return I
        return None
    def sorts(self, tid, depth=0):
        t = self.tt[tid]
        k = t.get('k')
        s = self.scalar_sort(tid)
        if s is not None:
            return [s]
        if k == 'basic' and t['b'] in ('string', 'untyped string'):
            return [ArrII, I, I]
        if k == 'slice':
            es = self.sorts(t['e'], depth + 1)
            return [z3.ArraySort(I, x) for x in es] + [I, I, I, B]
        if k == 'array':
            es = self.sorts(t['e'], depth + 1)
            return [z3.ArraySort(I, x) for x in es]
        if k == 'struct':
            if depth > 6:
                raise Unsupported('struct nesting too deep: ' + t['s'])
            out = []
            for f in t['f']:
                out += self.sorts(f['t'], depth + 1)
            return out
        if k == 'ptr':
            return [I]
        if k == 'map':
            ks = self.sorts(t['key'], depth + 1)
            if len(ks) != 1:
                ks = [I]      # compound keys are abstracted to an identity (string keys use their symbol)
            vs = self.sorts(t['e'], depth + 1)
            return [z3.ArraySort(ks[0], B)] + [z3.ArraySort(ks[0], x) for x in vs] + [B]
        if k in ('iface', 'typeparam'):
            return [I, I]
        if k in ('func', 'chan'):
            return [I]
        raise Unsupported('type %s' % t['s'])
    def int_slots(self, tid, depth=0):
        """[(slot index in flatten order, (width, signed), array levels)] of the fixed-width integers inside a value"""
        t = self.tt[tid]
        k = t.get('k')
        ii = self.tt.intinfo(tid)
        if ii:
            return [(0, ii, 0)] if ii[0] else []
        if self.scalar_sort(tid) is not None or depth > 6:
            return []
        if k == 'array':
            return [(i, inf, n + 1) for (i, inf, n) in self.int_slots(t['e'], depth + 1)]
        if k == 'struct':
            out, base = [], 0
            for f in t['f']:
                out += [(base + i, inf, n) for (i, inf, n) in self.int_slots(f['t'], depth + 1)]
                base += len(self.sorts(f['t'], depth + 1))
            return out
        return []
    def ref_slots(self, tid, depth=0):
        """[(slot index in flatten order, number of array levels around it)] of the object references inside a value of
        the type (pointers, interface values); map contents are not tracked."""
        t = self.tt[tid]
        k = t.get('k')
        if self.scalar_sort(tid) is not None or depth > 6:
            return []
        if k == 'ptr':
            return [(0, 0)]
        if k in ('iface', 'typeparam'):
            return [(0, 0)]
        if k in ('slice', 'array'):
            return [(i, n + 1) for (i, n) in self.ref_slots(t['e'], depth + 1)]
        if k == 'struct':
            out, base = [], 0
            for f in t['f']:
                out += [(base + i, n) for (i, n) in self.ref_slots(f['t'], depth + 1)]
                base += len(self.sorts(f['t'], depth + 1))
            return out
        return []
    def flatten(self, v, tid):
        t = self.tt[tid]
        k = t.get('k')
        if self.scalar_sort(tid) is not None:
            return [v]
        if isinstance(v, StrV):
            return [v.arr, v.off, v.len]
        if isinstance(v, SliceV):
            return list(v.arrs) + [v.off, v.len, v.cap, v.isnil]
        if isinstance(v, ArrayV):
            return list(v.arrs)
        if isinstance(v, StructV):
            out = []
            if 'f' not in t:
                raise Unsupported('flatten struct value as %r' % (t,))
            for f in t['f']:
                out += self.flatten(v.fields[f['n']], f['t'])
            return out
        if isinstance(v, PtrV):
            return [v.ref]
        if isinstance(v, MapV):
            return [v.dom] + list(v.vals) + [v.isnil]
        if isinstance(v, IfaceV):
            return [v.ref, v.tag if v.tag is not None else z3.IntVal(0)]
        if isinstance(v, FuncV):
            return [v.ref if v.ref is not None else z3.IntVal(-1)]
        raise Unsupported('flatten %r as %s' % (v, t['s']))
    def unflatten(self, it, tid):
        """it: iterator over z3 terms."""
        t = self.tt[tid]
        k = t.get('k')
        if self.scalar_sort(tid) is not None:
            return next(it)
        if k == 'basic' and t['b'] in ('string', 'untyped string'):
            a, o, n = next(it), next(it), next(it)
            return StrV(a, o, n)
        if k == 'slice':
            n = len(self.sorts(t['e']))
            arrs = [next(it) for _ in range(n)]
            off, ln, cap, isnil = next(it), next(it), next(it), next(it)
            return SliceV(arrs, off, ln, cap, t['e'], isnil)
        if k == 'array':
            n = len(self.sorts(t['e']))
            return ArrayV([next(it) for _ in range(n)], t['n'], t['e'])
        if k == 'struct':
            return StructV(tid, {f['n']: self.unflatten(it, f['t']) for f in t['f']})
        if k == 'ptr':
            return PtrV(next(it), t['e'])
        if k == 'map':
            nv = len(self.sorts(t['e']))
            dom = next(it)
            vals = [next(it) for _ in range(nv)]
            return MapV(dom, vals, t['key'], t['e'], next(it))
        if k in ('iface', 'typeparam'):
            return IfaceV(next(it), next(it), tid)
        if k in ('func', 'chan'):
            return FuncV(ref=next(it))
        raise Unsupported('unflatten %s' % t['s'])
    def fresh(self, tid, name):
        ss = self.sorts(tid)
        terms = [fresh('%s.%d' % (name, i) if len(ss) > 1 else name, s) for i, s in enumerate(ss)]
        return self.unflatten(iter(terms), tid)
    def maxlen(self):
        # lengths are values of type int: 32 bits in code compiled by GopherJS
        return (1 << 31) - 1 if getattr(self.tt, 'word', 64) == 32 else MAXLEN

    def wf(self, v, tid, depth=0):
        """Type invariants of a symbolic value (the 'is_valid' predicate put into preconditions)."""
        t = self.tt[tid]
        k = t.get('k')
        out = []
        ii = self.tt.intinfo(tid)
        if ii and self.mode != 'bv' and isinstance(v, z3.ExprRef):
            w, s = ii
            if w:
                out.append(z3.And(v >= (-(1 << (w - 1)) if s else 0), v <= ((1 << (w - 1)) - 1 if s else (1 << w) - 1)))
        elif isinstance(v, StrV):
            out += [v.off >= 0, v.len >= 0, v.len <= self.maxlen(), v.off <= MAXLEN]
            kq = fresh('k!wf')
            out.append(z3.ForAll([kq], z3.And(z3.Select(v.arr, kq) >= 0, z3.Select(v.arr, kq) <= 255)))
        elif isinstance(v, SliceV):
            out += [v.off >= 0, v.len >= 0, v.len <= v.cap, v.cap <= self.maxlen(), v.off <= MAXLEN, z3.Implies(v.isnil, v.cap == 0)]
            ei = self.tt.intinfo(v.etid)
            if ei and self.mode != 'bv' and ei[0]:
                w, s = ei
                kq = fresh('k!wf')
                lo, hi = (-(1 << (w - 1)) if s else 0), ((1 << (w - 1)) - 1 if s else (1 << w) - 1)
                out.append(z3.ForAll([kq], z3.And(z3.Select(v.arrs[0], kq) >= lo, z3.Select(v.arrs[0], kq) <= hi)))
            elif self.mode != 'bv' and self.tt.kind(v.etid) in ('struct', 'array'):
                # elements that are structs / arrays of fixed-width integers: every stored component is in range
                try:
                    slots = self.int_slots(v.etid)
                except Unsupported:
                    slots = []
                for (i, (w, s), n) in slots:
                    if i >= len(v.arrs): continue
                    ks = [fresh('k!wf') for _ in range(n + 1)]
                    x = v.arrs[i]
                    for kq in ks: x = z3.Select(x, kq)
                    lo, hi = (-(1 << (w - 1)) if s else 0), ((1 << (w - 1)) - 1 if s else (1 << w) - 1)
                    out.append(z3.ForAll(ks, z3.And(x >= lo, x <= hi), patterns=[x]))
        elif isinstance(v, ArrayV):
            ei = self.tt.intinfo(v.etid)
            if ei and self.mode != 'bv' and ei[0]:
                w, s = ei
                kq = fresh('k!wf')
                lo, hi = (-(1 << (w - 1)) if s else 0), ((1 << (w - 1)) - 1 if s else (1 << w) - 1)
                out.append(z3.ForAll([kq], z3.And(z3.Select(v.arrs[0], kq) >= lo, z3.Select(v.arrs[0], kq) <= hi)))
        elif isinstance(v, StructV) and depth < 4:
            for f in t['f']:
                out += self.wf(v.fields[f['n']], f['t'], depth + 1)
        elif isinstance(v, PtrV):
            out.append(v.ref >= 0)
        elif isinstance(v, MapV):
            if isinstance(v.isnil, z3.ExprRef) and not z3.is_false(v.isnil):
                out.append(z3.Implies(v.isnil, v.dom == z3.K(v.dom.sort().domain(), z3.BoolVal(False))))     # a nil map has no keys
        elif isinstance(v, IfaceV):
            out.append(v.ref >= 0)
        return out
    def zero(self, tid):
        t = self.tt[tid]
        k = t.get('k')
        s = self.scalar_sort(tid)
        if s is not None:
            if s == I: return z3.IntVal(0)
            if s == B: return z3.BoolVal(False)
            if s.kind() == z3.Z3_BV_SORT: return z3.BitVecVal(0, s.size())
            if s == F64: return z3.FPVal(0.0, F64)
            if s == F32: return z3.FPVal(0.0, F32)
        if k == 'basic' and t['b'] in ('string', 'untyped string'):
            return strlit(b'')
        if k == 'slice':
            es = self.sorts(t['e'])
            return SliceV([z3.K(I, self._zero_of_sort(x)) for x in es], z3.IntVal(0), z3.IntVal(0), z3.IntVal(0), t['e'], z3.BoolVal(True))
        if k == 'array':
            es = self.sorts(t['e'])
            return ArrayV([z3.K(I, self._zero_of_sort(x)) for x in es], t['n'], t['e'])
        if k == 'struct':
            return StructV(tid, {f['n']: self.zero(f['t']) for f in t['f']})
        if k == 'ptr':
            return PtrV(z3.IntVal(0), t['e'])
        if k == 'map':
            ss = self.sorts(tid)
            ks = ss[0].domain()
            return MapV(z3.K(ks, z3.BoolVal(False)), [z3.K(ks, self._zero_of_sort(x.range())) for x in ss[1:-1]], t['key'], t['e'], z3.BoolVal(True))
        if k in ('iface', 'typeparam'):
            return IfaceV(z3.IntVal(0), z3.IntVal(0), tid)
        if k in ('func', 'chan'):
            return FuncV(ref=z3.IntVal(0))
        raise Unsupported('zero of %s' % t['s'])
    def _zero_of_sort(self, s):
        if s == I: return z3.IntVal(0)
        if s == B: return z3.BoolVal(False)
        if s.kind() == z3.Z3_BV_SORT: return z3.BitVecVal(0, s.size())
        if s.kind() == z3.Z3_ARRAY_SORT: return z3.K(s.domain(), self._zero_of_sort(s.range()))
        if s == F64: return z3.FPVal(0.0, F64)
        if s == F32: return z3.FPVal(0.0, F32)
        return fresh('zero', s)
