# Replay of a counterexample on the real prelude: the five prelude files are loaded from /repo into node, the function
# is called with the model's inputs, and the contract is evaluated on the concrete inputs and outputs.
import os, json, subprocess, tempfile
import z3
from .values import *
from .gostate import *
from .gospec import SpecEnv
from .jsexec import JSObj, JSArr, JSTuple, MaybeNaN, UNDEF

REPO = os.environ.get('VERIF_REPO', '/repo')
PRELUDE = ['prelude.js', 'numeric.js', 'types.js', 'goroutines.js', 'jsmapping.js']

HARNESS = r'''
"use strict";
const fs = require('fs');
const dir = process.argv[2];
let src = '(function(){ "use strict"; var $goVersion = "go1.20"; var $global = globalThis; var $module;\n';
for (const f of %(files)s) src += fs.readFileSync(dir + '/' + f, 'utf8') + '\n';
src += '\n$throwRuntimeError = msg => { throw new Error("GVCRT:" + msg); };\n';
src += 'return function(name){ return eval(name); }; })()';
const get = (new Function('require', 'return ' + src))(require);
const spec = JSON.parse(fs.readFileSync(process.argv[3], 'utf8'));
function mk(a) {
  if (a === null) return undefined;
  if (a.t === 'num') return a.v;
  if (a.t === 'bool') return a.v;
  if (a.t === 'str') return String.fromCharCode.apply(undefined, a.v);
  if (a.t === 'i64') return new (get('$Int64'))(a.h, a.l);
  if (a.t === 'u64') return new (get('$Uint64'))(a.h, a.l);
  if (a.t === 'u8arr') return Uint8Array.from(a.v);
  if (a.t === 'arr') return Array.from(a.v);
  throw new Error('input kind ' + a.t);
}
function enc(v) {
  if (v === undefined) return {t: 'undef'};
  if (typeof v === 'number') return Number.isNaN(v) ? {t: 'nan'} : {t: 'num', v: v};
  if (typeof v === 'boolean') return {t: 'bool', v: v};
  if (typeof v === 'string') { const a = []; for (let i = 0; i < v.length; i++) a.push(v.charCodeAt(i)); return {t: 'str', v: a}; }
  if (Array.isArray(v) || ArrayBuffer.isView(v)) return {t: 'tuple', v: Array.from(v).map(enc)};
  if (v !== null && typeof v === 'object' && '$high' in v) return {t: 'obj', f: {'$high': enc(v.$high), '$low': enc(v.$low)}};
  if (v !== null && typeof v === 'object' && '$array' in v) return {t: 'obj', f: {'$offset': enc(v.$offset), '$length': enc(v.$length), '$capacity': enc(v.$capacity)}};
  return {t: 'other'};
}
const out = {};
const fun = get(spec.func);
if (typeof fun !== 'function') { console.log('GVCHARNESS function not found'); process.exit(3); }
const args = spec.args.map(mk);
try {
  const r = fun.apply(undefined, args);
  out.result = enc(r);
  out.args_after = args.map(enc);
} catch (e) { out.threw = String(e && e.message); }
console.log('GVCOUT ' + JSON.stringify(out));
'''

class NoReplay(Exception):
    pass

class JSReplayer:
    def __init__(self, ex, name, contract, fn, entry, ptypes):
        self.ex, self.name, self.c, self.fn, self.entry, self.ptypes = ex, name, contract, fn, entry, ptypes

    def conc_num(self, m, v):
        r = m.eval(v, model_completion=True)
        if z3.is_bv(r): return r.as_signed_long()
        return r.as_long()

    def conc(self, m, v, ty):
        if ty in ('num', 'int', 'int32', 'uint32', 'byte', 'nat', 'rune32'):
            return {'t': 'num', 'v': self.conc_num(m, v)}
        if ty == 'bool':
            return {'t': 'bool', 'v': bool(z3.is_true(m.eval(v, model_completion=True)))}
        if ty == 'str':
            n = m.eval(v.len, model_completion=True).as_long()
            if n > 4096: raise NoReplay('string too long')
            return {'t': 'str', 'v': [m.eval(z3.Select(v.arr, v.off + i), model_completion=True).as_long() & 0xFFFF for i in range(n)]}
        if ty in ('i64', 'u64'):
            return {'t': ty, 'h': self.conc_num(m, v.fields['$high']), 'l': self.conc_num(m, v.fields['$low'])}
        raise NoReplay('parameter type ' + ty)

    def lift(self, enc):
        ex = self.ex
        t = enc['t']
        if t == 'num':
            if enc['v'] != int(enc['v']): raise NoReplay('non-integer result')
            return ex.num(int(enc['v']))
        if t == 'bool': return z3.BoolVal(enc['v'])
        if t == 'str': return strlit(bytes([c & 0xFF for c in enc['v']])) if all(c < 256 for c in enc['v']) else self._wide(enc['v'])
        if t == 'tuple': return JSTuple([self.lift(x) for x in enc['v']])
        if t == 'obj': return JSObj({k: self.lift(x) for k, x in enc['f'].items()})
        if t == 'undef': return UNDEF
        if t == 'nan': return MaybeNaN(ex.num(0), z3.BoolVal(True))
        raise NoReplay('result kind ' + t)

    def _wide(self, codes):
        arr = z3.K(I, z3.IntVal(0))
        for i, c in enumerate(codes): arr = z3.Store(arr, i, c)
        return StrV(arr, z3.IntVal(0), z3.IntVal(len(codes)))

    def lift_in(self, enc):
        t = enc['t']
        if t in ('i64', 'u64'):
            return JSObj({'$high': self.ex.num(enc['h']), '$low': self.ex.num(enc['l'])}, ctor='Int64' if t == 'i64' else 'Uint64')
        return self.lift(enc)

    def decide(self, e):
        s = z3.Solver(); s.set('timeout', 5000); s.add(z3.Not(e))
        r = s.check()
        return True if r == z3.unsat else (False if r == z3.sat else None)

    def replay(self, ob):
        ex = self.ex
        s = z3.Solver(); s.set('timeout', 20000)
        s.add(ob.hyps)
        if ob.kind == 'proof': s.add(z3.Not(ob.goal))
        import signal
        signal.alarm(30)          # (replays run in a forked child: a solver call that ignores its timeout ends the child, not the check)
        r0 = s.check()
        signal.alarm(0)
        if r0 != z3.sat:
            return {'violates': False, 'note': 'in-process solver did not reproduce the model'}
        m = s.model()
        try:
            args = [self.conc(m, self.entry.env[p['name']], self.ptypes[p['name']]) for p in self.fn['params']]
        except NoReplay as e:
            return {'violates': False, 'note': 'not replayable: %s' % e}
        with tempfile.TemporaryDirectory(prefix='gvc-jsreplay-') as td:
            hp, sp = os.path.join(td, 'h.js'), os.path.join(td, 'spec.json')
            with open(hp, 'w') as f: f.write(HARNESS % {'files': json.dumps(PRELUDE)})
            with open(sp, 'w') as f: json.dump({'func': self.name, 'args': args}, f)
            p = subprocess.run(['node', hp, os.path.join(REPO, 'compiler', 'prelude'), sp], stdout=subprocess.PIPE, stderr=subprocess.STDOUT, text=True, timeout=60)
        line = [l for l in p.stdout.splitlines() if l.startswith('GVCOUT ')]
        if not line:
            return {'violates': False, 'note': 'node harness failed: ' + p.stdout[-800:]}
        out = json.loads(line[0][7:])
        res = {'function': self.name, 'inputs': args, 'real_output': out, 'violated_clauses': [], 'harness': 'node + the five prelude files from /repo'}
        saved_mode = ex.mode
        try:
            ex.mode = self.c.get('mode')[0].text.strip() if self.c.get('mode') else 'jn'
            ex.interpret_prod = True      # on concrete values products are real products
            pre = State(); pre.meta['concrete'] = True
            for pnode, a in zip(self.fn['params'], args):
                pre.env[pnode['name']] = self.lift_in(a)
            pre.entry = pre
            envpre = SpecEnv(pre, ex.spec_binds(pre), pre)
            for cl in self.c.get('requires'):
                if self.decide(ex.sev_bool(envpre, cl.expr)) is False:
                    res['note'] = 'model input does not satisfy the precondition (spurious)'; res['violates'] = False
                    return res
            tcs = self.c.get('throws_if')
            threw = 'threw' in out
            if tcs:
                vals = [self.decide(ex.sev_bool(envpre, cl.expr)) for cl in tcs]
                must = True if any(v is True for v in vals) else (False if all(v is False for v in vals) else None)
                if must is not None and must != threw:
                    res['violated_clauses'].append('throws_if: contract says %s, real code %s' % ('throw' if must else 'no throw', 'threw ' + out.get('threw', '') if threw else 'returned'))
            elif threw:
                res['violated_clauses'].append('unexpected throw: ' + out.get('threw', ''))
            if not threw:
                post = pre.clone(); post.meta['concrete'] = True
                binds = ex.spec_binds(post)
                binds['result'] = ex.to_spec(post, self.lift(out['result']))
                envpost = SpecEnv(post, binds, pre)
                envpost.binds_old = ex.spec_binds(pre)
                for cl in self.c.get('ensures'):
                    try:
                        d = self.decide(ex.sev_bool(envpost, cl.expr))
                    except (Unsupported, NoReplay, KeyError, AttributeError, z3.Z3Exception):
                        d = None
                    if d is False:
                        res['violated_clauses'].append('ensures ' + cl.text)
        except (NoReplay, Unsupported) as e:
            res['note'] = 'contract could not be evaluated concretely: %r' % (e,)
        finally:
            ex.mode = saved_mode
            ex.interpret_prod = False
        res['violates'] = bool(res['violated_clauses'])
        return res
