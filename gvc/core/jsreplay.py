# Replay of a counterexample on the real prelude: the five prelude files are loaded from /repo into node, the function
# is called with the model's inputs, and the contract is evaluated on the concrete inputs and outputs.
import os, json, subprocess, tempfile
import z3
from .values import *
from .gostate import *
from .gospec import SpecEnv
from .jsexec import JSObj, JSArr, JSTuple, MaybeNaN, UNDEF

REPO = os.environ.get('VERIF_REPO', '/repo')
PRELUDE = ['prelude.js', 'numeric.js', 'types.js', 'goroutines.js', 'jsmapping.js']

HARNESS = r'''
"use strict";
const fs = require('fs');
const dir = process.argv[2];
let src = '(function(){ "use strict"; var $goVersion = "go1.20"; var $global = globalThis; var $module;\n';
for (const f of %(files)s) src += fs.readFileSync(dir + '/' + f, 'utf8') + '\n';
src += '\n$throwRuntimeError = msg => { throw new Error("GVCRT:" + msg); };\n';
src += 'return function(name){ return eval(name); }; })()';
const get = (new Function('require', 'return ' + src))(require);
const spec = JSON.parse(fs.readFileSync(process.argv[3], 'utf8'));
// arrays and slices: element objects carry an identity (the model's integer), arrays are kept by the model's array identity
// so that aliased parameters are the same object.  Element types: a real struct type (kind 25), a real array-of-struct type
// (kind 17), otherwise any type whose arrays are plain Arrays / typed arrays as the model says.
const arrays = new Map(), arrayIdent = new Map(), ids = new Map();
let nextId = 1000000000, nextArr = 1000000;
let structT = null, arrT = null;
function valueTypes() {
  if (structT) return;
  structT = get('$newType')(0, get('$kindStruct'), "gvc.S", true, "gvc", true, function(id_) { this.$val = this; if (arguments.length === 0) { this.id = 0; return; } this.id = id_; });
  structT.init("gvc", [{prop: "id", name: "id", embedded: false, exported: false, typ: get('$Int'), tag: ""}]);
  arrT = get('$arrayType')(structT, 1);
}
function elemType(kind, plain) { valueTypes(); return kind === 25 ? structT : kind === 17 ? arrT : (plain ? get('$emptyInterface') : get('$Float64')); }
function mkElem(id, kind) {
  if (kind !== 25 && kind !== 17) return id;
  valueTypes();
  const o = kind === 25 ? new structT.ptr(id) : [new structT.ptr(id)];
  ids.set(o, id); return o;
}
function mkArr(a, kind) {
  if (arrays.has(a.ident)) return arrays.get(a.ident);
  const r = (a.plain || kind === 25 || kind === 17) ? a.v.map(x => mkElem(x, kind)) : Float64Array.from(a.v);
  arrays.set(a.ident, r); arrayIdent.set(r, a.ident); return r;
}
function idOf(x) {
  if (typeof x === 'number') return x;
  if (x === undefined) return -1;
  if (!ids.has(x)) ids.set(x, nextId++);
  return ids.get(x);
}
function contentOf(x) {
  if (x !== null && typeof x === 'object') { if (Array.isArray(x)) return x.length ? contentOf(x[0]) : null; if ('id' in x) return x.id; }
  return null;
}
function encArr(x) {
  let fresh = false;
  if (!arrayIdent.has(x)) { arrayIdent.set(x, nextArr++); fresh = true; }
  const l = Array.from(x);
  return {t: 'arr', plain: Array.isArray(x), ident: arrayIdent.get(x), fresh: fresh, v: l.map(idOf), c: l.map(contentOf)};
}
function mk(a) {
  if (a === null) return undefined;
  if (a.t === 'iface') { if (a.nil) return get('$ifaceNil'); return a.comparable ? new (get('$Int'))(5) : new (get('$sliceType')(get('$Int')))([1]); }
  if (a.t === 'chan') { if (a.nil) return get('$chanNil'); const c = new (get('$Chan'))(get('$Int'), 0); c.$closed = a.closed; return c; }
  if (a.t === 'arrv') return mkArr(a, a.kind);
  if (a.t === 'elemtype') { return (a.kind === 25 || a.kind === 17) ? elemType(a.kind, true) : {kind: a.kind}; }
  if (a.t === 'slice') {
    const ST = get('$sliceType')(elemType(a.kind, a.arr.plain));
    ST.$gvckind = a.kind;
    if (a.nil) return ST.nil;
    const s = new ST(mkArr(a.arr, a.kind)); s.$offset = a.off; s.$length = a.len; s.$capacity = a.cap; return s;
  }
  if (a.t === 'num') return a.v;
  if (a.t === 'bool') return a.v;
  if (a.t === 'str') return String.fromCharCode.apply(undefined, a.v);
  if (a.t === 'i64') return new (get('$Int64'))(a.h, a.l);
  if (a.t === 'u64') return new (get('$Uint64'))(a.h, a.l);
  if (a.t === 'u8arr') return Uint8Array.from(a.v);
  if (a.t === 'arr') return Array.from(a.v);
  throw new Error('input kind ' + a.t);
}
function enc(v) {
  if (v === undefined) return {t: 'undef'};
  if (typeof v === 'number') return Number.isNaN(v) ? {t: 'nan'} : {t: 'num', v: v};
  if (typeof v === 'boolean') return {t: 'bool', v: v};
  if (typeof v === 'string') { const a = []; for (let i = 0; i < v.length; i++) a.push(v.charCodeAt(i)); return {t: 'str', v: a}; }
  if ((Array.isArray(v) || ArrayBuffer.isView(v)) && (arrayIdent.has(v) || spec.arrays)) return encArr(v);
  if (Array.isArray(v) || ArrayBuffer.isView(v)) return {t: 'tuple', v: Array.from(v).map(enc)};
  if (v !== null && typeof v === 'object' && '$array' in v && spec.arrays)
    return {t: 'slice', arr: encArr(v.$array), off: v.$offset, len: v.$length, cap: v.$capacity, nil: v === v.constructor.nil, kind: v.constructor.$gvckind === undefined ? 0 : v.constructor.$gvckind};
  if (v !== null && typeof v === 'object' && '$sendQueue' in v) return {t: 'chan', nil: v === get('$chanNil'), closed: !!v.$closed};
  if (v !== null && typeof v === 'object' && '$high' in v) return {t: 'obj', f: {'$high': enc(v.$high), '$low': enc(v.$low)}};
  if (v !== null && typeof v === 'object' && '$array' in v) return {t: 'obj', f: {'$offset': enc(v.$offset), '$length': enc(v.$length), '$capacity': enc(v.$capacity)}};
  return {t: 'other'};
}
const out = {};
const fun = get(spec.func);
if (typeof fun !== 'function') { console.log('GVCHARNESS function not found'); process.exit(3); }
const args = spec.args.map(mk);
try {
  const r = fun.apply(undefined, args);
  out.result = enc(r);
  out.args_after = args.map(enc);
} catch (e) { out.threw = String(e && e.message); }
console.log('GVCOUT ' + JSON.stringify(out));
'''

class NoReplay(Exception):
    pass

class JSReplayer:
    def __init__(self, ex, name, contract, fn, entry, ptypes):
        self.ex, self.name, self.c, self.fn, self.entry, self.ptypes = ex, name, contract, fn, entry, ptypes

    def conc_num(self, m, v):
        r = m.eval(v, model_completion=True)
        if z3.is_bv(r): return r.as_signed_long()
        return r.as_long()

    def conc(self, m, v, ty):
        if ty in ('num', 'int', 'int32', 'uint32', 'byte', 'nat', 'rune32'):
            return {'t': 'num', 'v': self.conc_num(m, v)}
        if ty == 'bool':
            return {'t': 'bool', 'v': bool(z3.is_true(m.eval(v, model_completion=True)))}
        if ty == 'str':
            n = m.eval(v.len, model_completion=True).as_long()
            if n > 4096: raise NoReplay('string too long')
            return {'t': 'str', 'v': [m.eval(z3.Select(v.arr, v.off + i), model_completion=True).as_long() & 0xFFFF for i in range(n)]}
        if ty in ('i64', 'u64'):
            return {'t': ty, 'h': self.conc_num(m, v.fields['$high']), 'l': self.conc_num(m, v.fields['$low'])}
        if ty == 'arr':
            return self.conc_arr(m, v, 0)
        if ty == 'iface':
            return {'t': 'iface', 'nil': bool(z3.is_true(m.eval(v.fields['$nil'], model_completion=True))),
                    'comparable': bool(z3.is_true(m.eval(z3.Function('fld_comparable', I, B)(v.fields['constructor'].ref), model_completion=True)))}
        if ty == 'chan':
            return {'t': 'chan', 'nil': bool(z3.is_true(m.eval(v.fields['$nil'], model_completion=True))), 'closed': bool(z3.is_true(m.eval(v.fields['$closed'], model_completion=True)))}
        if ty == 'elemtype':
            return {'t': 'elemtype', 'kind': self.conc_num(m, v.fields['kind'])}
        if ty == 'slice':
            kind = self.conc_num(m, v.fields['$elemtype'].fields['kind'])
            a = self.conc_arr(m, v.fields['$array'], kind)
            if kind in (17, 25) and not a['plain']: raise NoReplay('value-kind elements in a typed array')
            r = {'t': 'slice', 'arr': a, 'kind': kind, 'nil': bool(z3.is_true(m.eval(v.fields['$nil'], model_completion=True)))}
            for f, k in (('$offset', 'off'), ('$length', 'len'), ('$capacity', 'cap')): r[k] = self.conc_num(m, v.fields[f])
            if r['nil'] and (r['off'] != 0 or a['v']): raise NoReplay('a nil slice with a non-empty array in the model')
            return r
        raise NoReplay('parameter type ' + ty)

    def conc_arr(self, m, a, kind):
        from .jsexec import HEAP
        n = m.eval(a.length, model_completion=True).as_long()
        if n > 256: raise NoReplay('array too long')
        h = self.entry.ghost.get(('jsheap',))
        if h is None: h = z3.Const('JSHEAP', HEAP)
        row = z3.Select(h, a.ident)
        vals = [m.eval(z3.Select(row, i), model_completion=True).as_long() for i in range(n)]
        plain = bool(z3.is_true(m.eval(a.plain, model_completion=True))) if a.plain is not None else False
        if kind in (17, 25) and len(set(vals)) != len(vals): raise NoReplay('one element object stored twice')
        if not plain and any(abs(x) > 2 ** 53 for x in vals): raise NoReplay('element outside the double range')
        return {'t': 'arrv', 'v': vals, 'plain': plain, 'ident': m.eval(a.ident, model_completion=True).as_long(), 'kind': kind}

    def lift_arr(self, st, enc):
        """a concrete array in state st: identity, length and contents go into the state's heap"""
        from .jsexec import HEAP
        h = st.ghost.get(('jsheap',))
        if h is None: h = z3.K(I, z3.K(I, z3.IntVal(0)))
        row = z3.K(I, z3.IntVal(0))
        for i, x in enumerate(enc['v']): row = z3.Store(row, i, z3.IntVal(x))
        ident = z3.IntVal(enc['ident'])
        st.ghost[('jsheap',)] = z3.Store(h, ident, row)
        if enc.get('fresh'):
            st.meta['fresh_js'] = set(st.meta.get('fresh_js', set())) | {ident.get_id()}
        for x, c in zip(enc['v'], enc.get('c') or []):
            self.elem_facts[x] = c
        return JSArr(ident, z3.IntVal(len(enc['v'])), 'num', plain=z3.BoolVal(bool(enc['plain'])))

    def lift_st(self, st, enc):
        t = enc['t'] if isinstance(enc, dict) else None
        if t in ('arr', 'arrv'): return self.lift_arr(st, enc)
        if t == 'elemtype': return JSObj({'kind': z3.IntVal(enc['kind'])}, ctor='Type')
        if t == 'iface':
            from .jsexec import JSDesc
            d = JSDesc(z3.IntVal(7))
            self.desc_facts = [z3.Function('fld_comparable', I, B)(z3.IntVal(7)) == z3.BoolVal(bool(enc['comparable']))]
            return JSObj({'$nil': z3.BoolVal(bool(enc['nil'])), 'constructor': d, '$val': z3.IntVal(0)}, ctor='Box')
        if t == 'chan': return JSObj({'$nil': z3.BoolVal(bool(enc['nil'])), '$closed': z3.BoolVal(bool(enc['closed']))}, ctor='Chan')
        if t == 'slice':
            return JSObj({'$array': self.lift_arr(st, enc['arr']), '$offset': z3.IntVal(enc['off']), '$length': z3.IntVal(enc['len']), '$capacity': z3.IntVal(enc['cap']),
                          '$nil': z3.BoolVal(bool(enc['nil'])), '$elemtype': JSObj({'kind': z3.IntVal(enc['kind'])}, ctor='Type')}, ctor='Slice')
        return self.lift_in(enc) if t in ('i64', 'u64') else self.lift(enc)

    def lift(self, enc):
        ex = self.ex
        t = enc['t']
        if t == 'num':
            if enc['v'] != int(enc['v']): raise NoReplay('non-integer result')
            return ex.num(int(enc['v']))
        if t == 'bool': return z3.BoolVal(enc['v'])
        if t == 'str': return strlit(bytes([c & 0xFF for c in enc['v']])) if all(c < 256 for c in enc['v']) else self._wide(enc['v'])
        if t == 'tuple': return JSTuple([self.lift(x) for x in enc['v']])
        if t == 'obj': return JSObj({k: self.lift(x) for k, x in enc['f'].items()})
        if t == 'undef': return UNDEF
        if t == 'nan': return MaybeNaN(ex.num(0), z3.BoolVal(True))
        raise NoReplay('result kind ' + t)

    def _wide(self, codes):
        arr = z3.K(I, z3.IntVal(0))
        for i, c in enumerate(codes): arr = z3.Store(arr, i, c)
        return StrV(arr, z3.IntVal(0), z3.IntVal(len(codes)))

    def lift_in(self, enc):
        t = enc['t']
        if t in ('i64', 'u64'):
            return JSObj({'$high': self.ex.num(enc['h']), '$low': self.ex.num(enc['l'])}, ctor='Int64' if t == 'i64' else 'Uint64')
        return self.lift(enc)

    def decide(self, e):
        s = z3.Solver(); s.set('timeout', 5000); s.add(z3.Not(e))
        for f in getattr(self, 'desc_facts', []): s.add(f)
        if getattr(self, 'elem_facts', None) and 'isclone' in self.ex.spec.pures and 'cloneOf' in self.ex.spec.pures:
            # concrete meaning of isclone / cloneOf: an element object the call created (identity handed out by the harness)
            # whose content is the content of an input element
            ic, co = self.ex.pure_decl('isclone'), self.ex.pure_decl('cloneOf')
            for x, c in self.elem_facts.items():
                new = x >= 1000000000 and c is not None
                s.add(ic(z3.IntVal(x)) == z3.BoolVal(bool(new)))
                if new: s.add(co(z3.IntVal(x)) == z3.IntVal(c))
        r = s.check()
        return True if r == z3.unsat else (False if r == z3.sat else None)

    def replay(self, ob):
        ex = self.ex
        s = z3.Solver(); s.set('timeout', 20000)
        s.add(ob.hyps)
        if ob.kind == 'proof': s.add(z3.Not(ob.goal))
        import signal
        # small instances first: arrays of at most 6 elements and small numeric parameters, when the failure has such a model
        small = []
        for p in self.fn['params']:
            v, ty = self.entry.env.get(p['name']), self.ptypes.get(p['name'])
            if ty in ('slice', 'arr'):
                a = v.fields['$array'] if ty == 'slice' else v
                small.append(a.length <= 6)
                if ty == 'slice': small.append(v.fields['$capacity'] <= 6)
                from .jsexec import HEAP
                h = self.entry.ghost.get(('jsheap',))
                if h is None: h = z3.Const('JSHEAP', HEAP)
                els = [z3.Select(z3.Select(h, a.ident), i) for i in range(6)]
                small += [z3.Distinct(*els)] + [z3.And(x >= 1, x <= 1000000) for x in els]       # element objects are distinct identities
            elif ty == 'nat' and isinstance(v, z3.ExprRef) and z3.is_int(v): small.append(v <= 16)
        r0 = z3.unknown
        if small:
            s.push(); s.add(small)
            signal.alarm(30); r0 = s.check(); signal.alarm(0)
            if r0 == z3.sat: m = s.model()
            s.pop()
        if r0 != z3.sat:
            signal.alarm(30)          # (replays run in a forked child: a solver call that ignores its timeout ends the child, not the check)
            r0 = s.check()
            signal.alarm(0)
            if r0 == z3.sat: m = s.model()
        if r0 != z3.sat:
            return {'violates': False, 'note': 'in-process solver did not reproduce the model'}
        try:
            args = [self.conc(m, self.entry.env[p['name']], self.ptypes[p['name']]) for p in self.fn['params']]
        except NoReplay as e:
            return {'violates': False, 'note': 'not replayable: %s' % e}
        with tempfile.TemporaryDirectory(prefix='gvc-jsreplay-') as td:
            hp, sp = os.path.join(td, 'h.js'), os.path.join(td, 'spec.json')
            with open(hp, 'w') as f: f.write(HARNESS % {'files': json.dumps(PRELUDE)})
            with open(sp, 'w') as f: json.dump({'func': self.name, 'args': args, 'arrays': any(isinstance(a, dict) and a.get('t') in ('slice', 'arrv') for a in args)}, f)
            p = subprocess.run(['node', hp, os.path.join(REPO, 'compiler', 'prelude'), sp], stdout=subprocess.PIPE, stderr=subprocess.STDOUT, text=True, timeout=60)
        line = [l for l in p.stdout.splitlines() if l.startswith('GVCOUT ')]
        if not line:
            return {'violates': False, 'note': 'node harness failed: ' + p.stdout[-800:]}
        out = json.loads(line[0][7:])
        res = {'function': self.name, 'inputs': args, 'real_output': out, 'violated_clauses': [], 'harness': 'node + the five prelude files from /repo'}
        saved_mode = ex.mode
        try:
            ex.mode = self.c.get('mode')[0].text.strip() if self.c.get('mode') else 'jn'
            ex.interpret_prod = True      # on concrete values products are real products
            pre = State(); pre.meta['concrete'] = True
            self.elem_facts = {}
            for pnode, a in zip(self.fn['params'], args):
                pre.env[pnode['name']] = self.lift_st(pre, a) if a is not None else UNDEF
            pre.entry = pre
            envpre = SpecEnv(pre, ex.spec_binds(pre), pre)
            for cl in self.c.get('requires'):
                if self.decide(ex.sev_bool(envpre, cl.expr)) is False:
                    res['note'] = 'model input does not satisfy the precondition (spurious)'; res['violates'] = False
                    return res
            tcs = self.c.get('throws_if')
            threw = 'threw' in out
            if tcs:
                vals = [self.decide(ex.sev_bool(envpre, cl.expr)) for cl in tcs]
                must = True if any(v is True for v in vals) else (False if all(v is False for v in vals) else None)
                if must is not None and must != threw:
                    res['violated_clauses'].append('throws_if: contract says %s, real code %s' % ('throw' if must else 'no throw', 'threw ' + out.get('threw', '') if threw else 'returned'))
                elif must and threw and not str(out.get('threw', '')).startswith('GVCRT:'):
                    res['violated_clauses'].append('throws_if: the contract asks for a run-time error ($throwRuntimeError), the real code threw a JavaScript exception: ' + str(out.get('threw', ''))[:200])
            elif self.c.get('throws_when'):
                # one-directional: when the condition holds on entry the real code must raise a run-time error
                vals = [self.decide(ex.sev_bool(envpre, cl.expr)) for cl in self.c.get('throws_when')]
                want = 'GVCRT:' + (self.c.get('throws_msg')[0].text.strip() if self.c.get('throws_msg') else '')
                if any(v is True for v in vals) and not (threw and str(out.get('threw', '')).startswith(want)):
                    res['violated_clauses'].append('throws_when: the condition holds for this input, the real code %s' % ('threw ' + str(out.get('threw', ''))[:120] if threw else 'returned'))
            elif threw:
                res['violated_clauses'].append('unexpected throw: ' + out.get('threw', ''))
            if not threw:
                post = pre.clone(); post.meta['concrete'] = True
                post.entry = pre
                for pnode, a in zip(self.fn['params'], out.get('args_after') or []):
                    if isinstance(a, dict) and a.get('t') in ('arr', 'slice', 'chan'):
                        post.env[pnode['name']] = self.lift_st(post, a)       # (arrays may have been written: the heap after the call)
                binds = ex.spec_binds(post)
                binds['result'] = ex.to_spec(post, self.lift_st(post, out['result']))
                envpost = SpecEnv(post, binds, pre)
                envpost.binds_old = ex.spec_binds(pre)
                for cl in self.c.get('ensures'):
                    try:
                        d = self.decide(ex.sev_bool(envpost, cl.expr))
                    except (Unsupported, NoReplay, KeyError, AttributeError, z3.Z3Exception):
                        d = None
                    if d is False:
                        res['violated_clauses'].append('ensures ' + cl.text)
        except (NoReplay, Unsupported) as e:
            res['note'] = 'contract could not be evaluated concretely: %r' % (e,)
        finally:
            ex.mode = saved_mode
            ex.interpret_prod = False
        res['violates'] = bool(res['violated_clauses'])
        return res
