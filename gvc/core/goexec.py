# Symbolic executor / VC generator for the Go subset G0 over the typed AST dumped by astdump.
import z3, re
from .values import *
from .gostate import *
from .smt import Obligation
from . import speclang

class PathEnd(Exception):
    pass
class ReturnEx(Exception):
    def __init__(self, vals): self.vals = vals
class PanicEx(Exception):
    def __init__(self, what=None): self.what = what
class BreakEx(Exception):
    def __init__(self, label=None): self.label = label
class ContinueEx(Exception):
    def __init__(self, label=None): self.label = label

def collect_syms(t, acc, seen):
    i = t.get_id()
    if i in seen: return
    seen.add(i)
    if z3.is_quantifier(t):
        collect_syms(t.body(), acc, seen); return
    if z3.is_app(t):
        d = t.decl()
        if d.kind() == z3.Z3_OP_UNINTERPRETED and (t.num_args() > 0 or d.name().startswith('strlit!')):
            acc.add(d.name())
        for c in t.children():
            collect_syms(c, acc, seen)

def alpha_eq(a, b, memo=None):
    """structural equality of two terms up to the names of bound variables (and ignoring triggers)"""
    if memo is None: memo = {}
    k = (a.get_id(), b.get_id())
    if k in memo: return memo[k]
    memo[k] = True                       # (terms are DAGs; assume equal while comparing below)
    r = False
    if z3.is_quantifier(a) and z3.is_quantifier(b):
        r = (a.is_forall() == b.is_forall() and a.num_vars() == b.num_vars()
             and all(a.var_sort(i) == b.var_sort(i) for i in range(a.num_vars())) and alpha_eq(a.body(), b.body(), memo))
    elif z3.is_var(a) and z3.is_var(b):
        r = z3.get_var_index(a) == z3.get_var_index(b) and a.sort() == b.sort()
    elif z3.is_app(a) and z3.is_app(b) and not z3.is_quantifier(a) and not z3.is_quantifier(b):
        r = a.decl().eq(b.decl()) and a.num_args() == b.num_args() and all(alpha_eq(x, y, memo) for x, y in zip(a.children(), b.children()))
    memo[k] = r
    return r

def mentions_bound(t):
    """does the term mention a quantifier-bound spec variable (they are named q!...)?"""
    seen = set(); stack = [t]
    while stack:
        x = stack.pop()
        if x.get_id() in seen: continue
        seen.add(x.get_id())
        if z3.is_const(x) and x.decl().kind() == z3.Z3_OP_UNINTERPRETED and x.decl().name().startswith(('q!', 'k!')):
            return True
        stack.extend(x.children())
    return False

def simp_bool(c):
    c = z3.simplify(c)
    if z3.is_true(c): return True
    if z3.is_false(c): return False
    return None

def ite(c, a, b):
    if isinstance(a, z3.ExprRef):
        return z3.If(c, a, b)
    if isinstance(a, StrV):
        return StrV(z3.If(c, a.arr, b.arr), z3.If(c, a.off, b.off), z3.If(c, a.len, b.len))
    if isinstance(a, SliceV):
        return SliceV([z3.If(c, x, y) for x, y in zip(a.arrs, b.arrs)], z3.If(c, a.off, b.off), z3.If(c, a.len, b.len), z3.If(c, a.cap, b.cap), a.etid, z3.If(c, a.isnil, b.isnil))
    if isinstance(a, SeqV):
        return SeqV(z3.If(c, a.term, b.term))
    if isinstance(a, PtrV):
        return PtrV(z3.If(c, a.ref, b.ref), a.etid)
    if isinstance(a, IfaceV):
        return IfaceV(z3.If(c, a.ref, b.ref), z3.If(c, a.tag, b.tag) if a.tag is not None and b.tag is not None else None, a.tid)
    if isinstance(a, StructV):
        return StructV(a.tid, {k: ite(c, a.fields[k], b.fields[k]) for k in a.fields})
    if isinstance(a, TupleV):
        return TupleV([ite(c, x, y) for x, y in zip(a.vals, b.vals)])
    raise Unsupported('ite over %r' % a)

class Frame:
    """Per-function-verification context."""
    def __init__(self, key, decl, contract):
        self.key, self.decl, self.contract = key, decl, contract
        self.loops = {}
        self.loop_specs = contract.loops() if contract else {}
        self.exits = []

class GoExec:
    def __init__(self, dump, spec, word=64, mode='int', prop=None):
        self.dump = dump
        self.tt = TypeTab(dump['types'], word)
        self.funcs = dump['funcs']
        self.spec = spec
        self.mode = mode
        self.lay = Layout(self.tt, mode)
        self.contracts = {}
        for c in spec.contracts:
            if c.kind == 'func':
                self.contracts[c.key] = c
        self.externs = spec.externs
        self.obls = []
        self.obl_keys = set()
        self.trace = []
        self.oracle = []
        self.pending = []
        self.axioms = []
        self.used_axioms = set()
        self.assumed = set()       # names of assumed contracts actually used
        self.inlined = set()
        self.abstracted = []
        self.frame = None
        self.purefuncs = {}
        self.loop_cache = {}
        self.heap_bounds = {}
        self.use_seq = False
        self.prop = prop
        self.int_overflow_checks = (word == 64)     # library code compiled by GopherJS: Go's wrap-around semantics, no obligation
        self.covers = []
        sm = {'seq': ByteSeq, 'int': I, 'arr': ArrII, 'bool': B}
        self.ghost_funcs = {k: sm[v] for k, v in getattr(spec, 'ghostfns', {}).items()}
        if any(v == 'seq' for v in getattr(spec, 'ghostfns', {}).values()):
            pass

    # ------------------------------------------------------------------ forking by re-execution
    def choose(self, n):
        i = len(self.trace)
        if i < len(self.oracle):
            c = self.oracle[i]
        else:
            c = 0
            self.pending.append((i, n))
        self.trace.append(c)
        return c

    def fork(self, st, cond):
        """Split on a z3 Bool; returns the Python truth value taken on this path."""
        r = simp_bool(cond)
        if r is not None:
            return r
        if getattr(self, 'prune', False):
            # cheap feasibility pruning (enabled per contract): a branch whose path condition is unsatisfiable is not explored
            for val, c2 in ((True, cond), (False, z3.Not(cond))):
                s = z3.Solver(); s.set('timeout', 300)
                s.add([h for h in st.hyps() if not z3.is_quantifier(h)]); s.add(c2)
                if s.check() == z3.unsat:
                    st.assume(z3.Not(c2) if val else cond)
                    return not val
        c = self.choose(2)
        if c == 0:
            st.assume(cond); return True
        st.assume(z3.Not(cond)); return False

    def run_paths(self, st0, fn, maxpaths=4000):
        saved = (self.trace, self.oracle, self.pending)
        results = []
        stack = [[]]
        n = 0
        while stack:
            prefix = stack.pop()
            n += 1
            if n > maxpaths:
                self.trace, self.oracle, self.pending = saved
                raise Unsupported('path explosion (> %d paths)' % maxpaths)
            self.oracle, self.trace, self.pending = list(prefix), [], []
            st = st0.clone()
            try:
                r = fn(st)
                results.append(('end', st, r))
            except PathEnd:
                pass
            except ReturnEx as e:
                results.append(('return', st, e.vals))
            except PanicEx as e:
                results.append(('panic', st, e.what))
            except BreakEx as e:
                results.append(('break', st, e.label))
            except ContinueEx as e:
                results.append(('continue', st, e.label))
            for (i, k) in self.pending:
                for alt in range(1, k):
                    stack.append(self.trace[:i] + [alt])
        self.trace, self.oracle, self.pending = saved
        return results

    # ------------------------------------------------------------------ obligations
    def panics_unconstrained(self):
        """`panics_only_if true` (and no panic_ensures): the contract says nothing about panics, so a run-time panic (nil
        dereference, index out of range, nil map write) just ends the path"""
        c = self.frame.contract if self.frame else None
        if not c:
            return False
        if '_pu' not in self.frame.__dict__:
            po = c.get('panics_only_if')
            self.frame._pu = bool(po) and any(cl.text.strip() == 'true' for cl in po) and not c.get('panic_ensures')
        return self.frame._pu

    def oblige(self, st, name, goal, kind='proof', extra=(), src=None, meta=None):
        if kind == 'proof' and name.startswith(('nil@', 'bounds@', 'slicebounds@', 'nilmap@')) and self.panics_unconstrained():
            st.assume(goal)            # the other case is a panic, which this contract allows
            return
        r = simp_bool(goal) if kind == 'proof' else None
        if r is True:
            if re.match(r'(post#|inv-step#|panic-post#)', name):
                # syntactically true: nothing to prove, but the path is recorded for the vacuity guard (is any path to
                # the return / the back edge feasible at all?)
                fname = self.frame.key if self.frame else '?'
                o = Obligation('%s/%s' % (fname, name), st.hyps() + list(extra), z3.BoolVal(True), kind, func=fname, src=src)
                o.status, o.answer, o.solver = 'discharged', 'unsat', 'trivial (goal simplifies to true)'
                o.trivial = True
                self.obls.append(o)
            return
        # (the goal is part of the key: two different checks on one source line -- two index expressions, two arithmetic
        # operations, two requires clauses -- share a name and must both be kept; identical goals on one path are one)
        key = (self.frame.key if self.frame else '?', name, tuple(self.trace), src, goal.get_id() if isinstance(goal, z3.ExprRef) else None)
        if key in self.obl_keys:
            return
        self.obl_keys.add(key)
        self.__dict__.setdefault('_obl_goal_refs', []).append(goal)      # (keeps the term alive: its id is part of the key)
        if kind == 'proof' and (z3.is_quantifier(goal) or (z3.is_app(goal) and goal.decl().kind() == z3.Z3_OP_IMPLIES)):
            # a quantified goal that is literally one of the hypotheses (an invariant that holds on entry because it is a
            # precondition, a postcondition on a path that changes nothing): solvers can spend their whole budget on it
            gq = goal
            if not z3.is_quantifier(gq) and simp_bool(gq.arg(0)) is True:
                gq = gq.arg(1)
            if z3.is_quantifier(gq):
                for hh in st.hyps():
                    if z3.is_quantifier(hh) and alpha_eq(hh, gq):
                        fname = self.frame.key if self.frame else '?'
                        o = Obligation('%s/%s' % (fname, name), st.hyps() + list(extra), goal, kind, func=fname, src=src)     # (full path: the vacuity guard looks at it)
                        o.status, o.answer, o.solver = 'discharged', 'unsat', 'syntactic (the goal is one of the hypotheses)'
                        self.obls.append(o)
                        return
        fname = self.frame.key if self.frame else '?'
        n = '%s/%s' % (fname, name)
        cnt = sum(1 for o in self.obls if o.name == n or o.name.startswith(n + '~'))
        if cnt:
            n = '%s~%d' % (n, cnt)
        body = st.hyps() + list(extra)
        if st.meta.get('refs'):                    # the path allocated: the allocation-order facts matter
            body = body + list(st.meta.get('afacts', ()))
            syms = set(); seen = set()
            for t in body + [goal]:
                collect_syms(t, syms, seen)
            for hn, facts in self.heap_bounds.items():
                if hn in syms:
                    body = body + list(facts)
        meta = dict(meta or {})
        rp = getattr(self.frame, 'replayer', None)
        if rp is not None and 'replayer' not in meta:
            meta['replayer'] = lambda ob, model, rp=rp: rp.replay(ob)
            if getattr(rp, 'replays_unknown', False): meta['replay_unknown'] = True
        self.obls.append(Obligation(n, self.relevant_axioms(body + [goal]) + body, goal, kind, func=fname, src=src, meta=meta))

    def base_hyps(self):
        from .golib import ident_axioms
        return list(self.axioms) + (seq_axioms() if self.use_seq else []) + (ident_axioms() if getattr(self, 'use_ident', False) else [])

    def relevant_axioms(self, terms):
        """global axioms are included only when they share an uninterpreted symbol with the obligation (closure)"""
        axs = self.base_hyps()
        syms = set()
        seen = set()
        for t in terms:
            collect_syms(t, syms, seen)
        litf = []
        lits = []
        for s in syms:
            if s.startswith('strlit!'):
                litf += lit_facts(STRLIT_BY_NAME[s])
                lits.append(STRLIT_BY_NAME[s])
        if len(lits) > 1 and 'str_ident' in syms:
            # string literals with different contents are different strings: their identities (map keys) differ
            ids = [self.str_ident(v.arr, v.off, v.len) for v in lits]
            for i in range(len(lits)):
                for j in range(i + 1, len(lits)):
                    if lits[i].lit != lits[j].lit:
                        litf.append(ids[i] != ids[j])
        if not axs:
            return litf
        info = []
        for a in axs:
            s = set(); collect_syms(a, s, set())
            info.append((a, s))
        out, changed = [], True
        used = [False] * len(info)
        while changed:
            changed = False
            for i, (a, s) in enumerate(info):
                if not used[i] and (s & syms):
                    used[i] = True; out.append(a); syms |= s; changed = True
        return out + litf

    # ------------------------------------------------------------------ integer helpers
    def wrap(self, v, tid, st=None, line=None, what='overflow'):
        ii = self.tt.intinfo(tid)
        if not ii or self.mode == 'bv':
            return v
        w, signed = ii
        if not w:
            return v
        b = self.tt.basic(tid)
        if signed and w == 64 and self.int_overflow_checks and st is not None:
            self.oblige(st, '%s@%s' % (what, line), z3.And(v >= -(1 << 63), v < (1 << 63)), src=line)
            return v
        if st is not None and self.fits(st, v, w, signed):
            return v                  # no wrap-around on this path (decided from the quantifier-free path condition)
        if signed:
            return (v + (1 << (w - 1))) % (1 << w) - (1 << (w - 1))
        return v % (1 << w)

    def fits(self, st, v, w, signed):
        """does the path condition (its quantifier-free part) imply that v is representable in w bits?  Keeps wrap-around
        terms out of obligations about indices and counters whose range the invariants already fix."""
        if z3.is_int_value(z3.simplify(v)):
            return False
        lo, hi = (-(1 << (w - 1)), (1 << (w - 1)) - 1) if signed else (0, (1 << w) - 1)
        try:
            from .smt import _has_q
            s = z3.Solver(); s.set('timeout', 150)
            s.add([h for h in st.hyps() if not _has_q(h)])
            s.add(z3.Or(v < lo, v > hi))
            if s.check() == z3.unsat:
                return True
            from .smt import relevant_hyps
            rh = relevant_hyps(st.hyps(), z3.Or(v < lo, v > hi))
            if rh is None:
                rh = st.hyps()
            s = z3.Solver(); s.set('timeout', 300)
            s.add(rh); s.add(z3.Or(v < lo, v > hi))
            return s.check() == z3.unsat
        except Exception:
            return False

    def const_val(self, e):
        ck = e.get('ck')
        if ck in ('Int', 'Float') and e.get('t') is not None and self.tt.is_float(e['t']):
            num = e['cv']
            if '/' in num:
                a, b = num.split('/'); val = int(a) / int(b)
            else:
                val = float(num)
            return z3.FPVal(val, F32 if self.tt.basic(e['t']) == 'float32' else F64)
        if ck == 'Int':
            v = int(e['cv'])
            if self.mode == 'bv':
                w, _ = self.tt.intinfo(e['t']) or (64, True)
                return z3.BitVecVal(v, w or 64)
            return z3.IntVal(v)
        if ck == 'Bool':
            return z3.BoolVal(e['cv'] == 'true')
        if ck == 'String':
            return strlit(bytes(_b64(e.get('cs'))))
        if ck == 'Float':
            tid = e['t']
            if self.tt.intinfo(tid):
                return z3.IntVal(int(eval(e['cv'].replace('/', '//'))))
            num = e['cv']
            if '/' in num:
                a, b = num.split('/'); val = int(a) / int(b)
            else:
                val = float(num)
            return z3.FPVal(val, F32 if self.tt.basic(tid) == 'float32' else F64)
        raise Unsupported('constant kind %s' % ck)

    # ------------------------------------------------------------------ expressions
    def ev(self, st, e):
        if 'cv' in e and not e.get('isType'):
            return self.const_val(e)
        k = e['_']
        m = getattr(self, 'ev_' + k, None)
        if m is None:
            raise Unsupported('expression %s @%s' % (k, e.get('line')))
        return m(st, e)

    def ev_ParenExpr(self, st, e):
        return self.ev(st, e['X'])

    def ev_Ident(self, st, e):
        if e.get('isNil') or e['Name'] == 'nil':
            return self.lay.zero(e['t']) if self.tt.kind(e['t']) not in ('basic',) else IfaceV(z3.IntVal(0), z3.IntVal(0))
        o = e.get('obj')
        if o is None:
            raise Unsupported('unresolved identifier %s' % e['Name'])
        if o['kind'] == 'Var':
            bx = st.meta.get('boxed')
            if bx and o['id'] in bx:
                return self.load_ptr(st, bx[o['id']])
            if o['id'] in st.env:
                return st.env[o['id']]
            if o.get('global'):
                return self.global_var(st, o)
            raise Unsupported('unbound variable %s @%s' % (e['Name'], e.get('line')))
        if o['kind'] == 'Func':
            return FuncV(key=o['full'])
        if o['kind'] == 'Nil':
            return IfaceV(z3.IntVal(0), z3.IntVal(0))
        raise Unsupported('identifier kind %s (%s)' % (o['kind'], e['Name']))

    def global_var(self, st, o):
        key = ('global', o.get('pkg', '') + '.' + o['name'])
        if key not in st.ghost:
            gk = o.get('pkg', '') + '.' + o['name']
            g = self.dump.get('globals', {}).get(gk)
            st.ghost[key] = self.lay.fresh(o['t'], 'g.' + o['name'])
            ws = self.lay.wf(st.ghost[key], o['t'])
            st.pc += ws
            if st.entry is not None and key not in st.entry.ghost:
                st.entry.ghost[key] = st.ghost[key]
                st.entry.pc += ws
        return st.ghost[key]

    def ev_BasicLit(self, st, e):
        raise Unsupported('literal without constant value @%s' % e.get('line'))

    def ev_BinaryExpr(self, st, e):
        op = e['Op']
        if op in ('&&', '||'):
            a = self.ev(st, e['X'])
            st.guards.append(a if op == '&&' else z3.Not(a))
            try:
                b = self.ev(st, e['Y'])
            finally:
                st.guards.pop()
            return z3.And(a, b) if op == '&&' else z3.Or(a, b)
        a, b = self.ev(st, e['X']), self.ev(st, e['Y'])
        return self.binop(st, op, a, b, e['X'].get('t'), e['Y'].get('t'), e.get('t'), e.get('line'))

    def binop(self, st, op, a, b, ta, tb, tr, line):
        if op in ('==', '!='):
            r = self.equal(st, a, b, ta)
            return r if op == '==' else z3.Not(r)
        if isinstance(a, StrV) and op == '+':
            return self.str_concat(st, a, b)
        if isinstance(a, StrV) and op in ('<', '<=', '>', '>='):
            raise Unsupported('string ordering')
        if z3.is_fp(a) or z3.is_fp(b):
            rm = z3.RNE()
            if op == '+': return z3.fpAdd(rm, a, b)
            if op == '-': return z3.fpSub(rm, a, b)
            if op == '*': return z3.fpMul(rm, a, b)
            if op == '/': return z3.fpDiv(rm, a, b)
            if op == '<': return z3.fpLT(a, b)
            if op == '<=': return z3.fpLEQ(a, b)
            if op == '>': return z3.fpGT(a, b)
            if op == '>=': return z3.fpGEQ(a, b)
            raise Unsupported('float op ' + op)
        if self.mode == 'bv' and z3.is_bv(a):
            return self.bvop(st, op, a, b, ta, tr, line)
        if op in ('<', '<=', '>', '>='):
            return {'<': a < b, '<=': a <= b, '>': a > b, '>=': a >= b}[op]
        if op == '+': return self.wrap(a + b, tr, st, line)
        if op == '-': return self.wrap(a - b, tr, st, line)
        if op == '*':
            ac, bc = z3.simplify(a), z3.simplify(b)
            if z3.is_int_value(ac) or z3.is_int_value(bc):
                return self.wrap(a * b, tr, st, line)
            return self.wrap(self.abstract_product(st, a, b), tr, st, line)
        if op in ('/', '%'):
            self.oblige(st, 'divzero@%s' % line, b != 0, src=line)
            # Go truncated division on mathematical integers
            q = z3.If(b > 0, z3.If(a >= 0, a / b, -((-a) / b)), z3.If(a >= 0, -(a / (-b)), (-a) / (-b)))
            if op == '/':
                return self.wrap(q, tr, st, line)
            return a - b * q
        ii = self.tt.intinfo(tr) or (64, True)
        w, signed = ii
        if op in ('<<', '>>'):
            bc = z3.simplify(b)
            if z3.is_int_value(bc):
                kc = bc.as_long()
                if op == '<<':
                    return self.wrap(a * (1 << kc), tr, None, line) if (w and not (signed and w == 64)) else self.wrap(a * (1 << kc), tr, st, line)
                # arithmetic shift right = floor division
                return a / (1 << kc)
            raise Unsupported('variable shift in mode int @%s' % line)
        if op == '|':
            for x, y in ((a, b), (b, a)):
                yc = z3.simplify(y)
                if z3.is_int_value(yc):
                    m = yc.as_long()
                    if m > 0 and (m & (m - 1)) == 0:      # x | 2^k: set bit k (two's complement, floor division)
                        return z3.If((x / m) % 2 == 0, x + m, x)
                    if m == 0:
                        return x
            for x, y in ((a, b), (b, a)):
                ys = z3.simplify(y)
                if z3.is_app(ys) and ys.decl().kind() == z3.Z3_OP_MOD and z3.is_int_value(ys.arg(1)):
                    M = ys.arg(1).as_long()
                    if M > 0 and (M & (M - 1)) == 0:
                        # x | (y mod 2^k) where the low k bits of x are clear (side obligation): the bits are disjoint
                        self.oblige(st, 'disjoint-or@%s' % line, x % M == 0, src=line)
                        return x + y
            raise Unsupported('bitwise | of two variables in mode int @%s' % line)
        if op == '&':
            for x, y in ((a, b), (b, a)):
                yc = z3.simplify(y)
                if z3.is_int_value(yc):
                    m = yc.as_long()
                    if m >= 0 and (m & (m + 1)) == 0:
                        return x % (m + 1)
            raise Unsupported('bitwise & of two variables in mode int @%s' % line)
        if op == '&^':
            yc = z3.simplify(b)
            if z3.is_int_value(yc):
                m = yc.as_long()
                if m >= 0 and (m & (m + 1)) == 0:       # clear the low bits: round down to a multiple of 2^k (two's complement)
                    return a - a % (m + 1)
            raise Unsupported('bitwise &^ in mode int @%s' % line)
        raise Unsupported('operator %s in mode int @%s' % (op, line))

    def abstract_product(self, st, a, b):
        """product of two non-constant integers: the shared abstract symbol prod(a, b) with range facts that hold of true
        multiplication; algebraic identities enter through lemmas proved separately (`interpret prod`)"""
        p = PROD(a, b)
        m16, m32 = 65535, (1 << 32) - 1
        nn = z3.And(a >= 0, b >= 0)
        st.assume(z3.And(z3.Implies(nn, p >= 0),
                         z3.Implies(z3.And(nn, a <= m16, b <= m16), p <= m16 * m16),
                         z3.Implies(z3.And(nn, a <= m32, b <= m16), p <= m32 * m16),
                         z3.Implies(z3.And(nn, a <= m16, b <= m32), p <= m32 * m16),
                         z3.Implies(z3.And(nn, a <= m32, b <= m32), p <= m32 * m32)))
        return p

    def bvop(self, st, op, a, b, ta, tr, line):
        ii = self.tt.intinfo(ta) or (64, True)
        signed = ii[1]
        if op in ('<<', '>>'):
            if b.size() != a.size():
                if b.size() < a.size():
                    b2 = z3.ZeroExt(a.size() - b.size(), b)
                    big = None
                else:
                    big = z3.UGE(b, z3.BitVecVal(a.size(), b.size()))
                    b2 = z3.Extract(a.size() - 1, 0, b)
            else:
                b2, big = b, None
            r = (a << b2) if op == '<<' else (a >> b2 if signed else z3.LShR(a, b2))
            if big is not None:
                over = z3.BitVecVal(0, a.size()) if (op == '<<' or not signed) else (a >> z3.BitVecVal(a.size() - 1, a.size()))
                r = z3.If(big, over, r)
            return r
        if op == '+': return a + b
        if op == '-': return a - b
        if op == '*': return a * b
        if op == '&': return a & b
        if op == '|': return a | b
        if op == '^': return a ^ b
        if op == '&^': return a & ~b
        if op in ('/', '%'):
            self.oblige(st, 'divzero@%s' % line, b != 0, src=line)
            if signed:
                return (a / b) if op == '/' else z3.SRem(a, b)
            return z3.UDiv(a, b) if op == '/' else z3.URem(a, b)
        if op == '<': return (a < b) if signed else z3.ULT(a, b)
        if op == '<=': return (a <= b) if signed else z3.ULE(a, b)
        if op == '>': return (a > b) if signed else z3.UGT(a, b)
        if op == '>=': return (a >= b) if signed else z3.UGE(a, b)
        raise Unsupported('bv operator ' + op)

    def equal(self, st, a, b, tid=None):
        if isinstance(a, z3.ExprRef) and isinstance(b, z3.ExprRef):
            if z3.is_fp(a):
                return z3.fpEQ(a, b)
            return a == b
        if isinstance(a, StrV) and isinstance(b, StrV):
            return self.str_eq(a, b)
        if isinstance(a, (IfaceV, PtrV, FuncV)) or isinstance(b, (IfaceV, PtrV, FuncV)):
            ra, rb = self.refof(a), self.refof(b)
            if isinstance(a, IfaceV) and isinstance(b, IfaceV) and a.tag is not None and b.tag is not None \
               and not (z3.is_int_value(ra) and ra.as_long() == 0) and not (z3.is_int_value(rb) and rb.as_long() == 0):
                return z3.And(ra == rb, z3.Or(ra == 0, a.tag == b.tag))      # same dynamic type as well (nil has none)
            return ra == rb
        if isinstance(a, SliceV) and isinstance(b, SliceV):      # only comparison with nil is legal Go
            return a.isnil if b is not a and simp_bool(b.isnil) else b.isnil
        if isinstance(a, MapV) and isinstance(b, MapV):
            return a.isnil if simp_bool(b.isnil) else b.isnil
        if isinstance(a, StructV) and isinstance(b, StructV):
            return z3.And([self.equal(st, a.fields[k], b.fields[k]) for k in a.fields])
        if isinstance(a, SeqV) and isinstance(b, SeqV):
            return a.term == b.term
        if isinstance(a, TupleV) and isinstance(b, TupleV):
            return z3.And([self.equal(st, x, y) for x, y in zip(a.vals, b.vals)])
        raise Unsupported('equality of %r and %r' % (a, b))

    def refof(self, v):
        if isinstance(v, (IfaceV, PtrV)) or type(v).__name__ == 'RecV':
            return v.ref
        if isinstance(v, FuncV):
            return v.ref if v.ref is not None else z3.IntVal(-1)
        if isinstance(v, SliceV):
            return z3.If(v.isnil, 0, 1)
        if isinstance(v, MapV):
            return z3.If(v.isnil, 0, 1)
        if isinstance(v, z3.ExprRef):
            return v
        raise Unsupported('ref of %r' % v)

    str_ident = z3.Function('str_ident', ArrII, I, I, I)     # identity of a string value (extensional up to axioms below)
    def str_eq(self, a, b):
        if a.lit is not None and b.lit is not None:
            return z3.BoolVal(a.lit == b.lit)
        if b.lit is not None or a.lit is not None:
            s, l = (a, b) if b.lit is not None else (b, a)
            return z3.And([s.len == len(l.lit)] + [z3.Select(s.arr, s.off + i) == c for i, c in enumerate(l.lit)])
        return z3.And(a.len == b.len, self.str_ident(a.arr, a.off, a.len) == self.str_ident(b.arr, b.off, b.len))

    strcat_arr = z3.Function('strcat_arr', ArrII, I, I, ArrII, I, I, ArrII)
    def str_concat(self, st, a, b):
        if a.lit is not None and b.lit is not None:
            return strlit(a.lit + b.lit)
        self.need_lit(st, a); self.need_lit(st, b)
        arr = self.strcat_arr(a.arr, a.off, a.len, b.arr, b.off, b.len)      # canonical: equal operands give the same array term
        n = a.len + b.len
        k = fresh('k!cat')
        st.assume(z3.ForAll([k], z3.Select(arr, k) == z3.If(z3.And(0 <= k, k < a.len), z3.Select(a.arr, a.off + k),
                                                             z3.If(z3.And(a.len <= k, k < n), z3.Select(b.arr, b.off + (k - a.len)), 0))))
        r = StrV(arr, z3.IntVal(0), n)
        r.parts = (a, b)
        return r

    def ev_UnaryExpr(self, st, e):
        op = e['Op']
        if op == '&':
            return self.addr_of(st, e['X'])
        x = self.ev(st, e['X'])
        if op == '!': return z3.Not(x)
        if op == '-':
            if z3.is_fp(x): return z3.fpNeg(x)
            if z3.is_bv(x): return -x
            return self.wrap(-x, e['t'], st, e.get('line'))
        if op == '+': return x
        if op == '^':
            if z3.is_bv(x): return ~x
            ii = self.tt.intinfo(e['t'])
            if ii and not ii[1] and ii[0]:
                return ((1 << ii[0]) - 1) - x
            return -x - 1
        raise Unsupported('unary %s' % op)

    def addr_of(self, st, x):
        if x['_'] == 'CompositeLit':
            v = self.ev(st, x)
            return self.alloc(st, v, x['t'])
        if x['_'] == 'ParenExpr':
            return self.addr_of(st, x['X'])
        if x['_'] == 'Ident' and x.get('obj', {}).get('kind') == 'Var' and x['obj'].get('global'):
            # &packageVariable: an object that exists before the call; dereferencing reads the variable
            GA = z3.Function('globaladdr', I, I)
            import zlib
            ref = GA(z3.IntVal(zlib.crc32((x['obj'].get('pkg', '') + '.' + x['obj']['name']).encode())))
            st.assume(z3.And(ref > 0, ref < self.TOP0))
            p = PtrV(ref, x['obj']['t'])
            p.gobj = x['obj']             # dereferencing reads / writes the package variable itself
            return p
        if x['_'] == 'Ident' and x.get('obj', {}).get('kind') == 'Var' and not x['obj'].get('global'):
            oid = x['obj']['id']
            boxed = st.meta.get('boxed', {})
            if oid in boxed:
                return boxed[oid]
            p = self.alloc(st, st.env[oid], x['obj']['t'])     # the variable now lives in the heap
            nb = dict(boxed); nb[oid] = p; st.meta['boxed'] = nb
            return p
        if x['_'] == 'IndexExpr' and x['X'].get('t') is not None and self.tt.kind(x['X']['t']) == 'slice':
            # &s[i], used to read the element without copying it: allowed in functions that never write through a
            # pointer or into a slice, where the pointer can stand for a private copy of the element
            if self.function_writes_heap():
                raise Unsupported('address of a slice element in a function that writes the heap @%s' % x.get('line'))
            v = self.ev(st, x)
            return self.alloc(st, v, x['t'])
        if x['_'] == 'SelectorExpr' and x.get('sel', {}).get('kind') == 'field':
            base = self.ev(st, x['X'])
            if isinstance(base, PtrV) and len(x['sel'].get('index', [])) == 1:
                # &p.f: an interior pointer.  It is given an identity (a function of p and the field) and may be stored
                # and passed on, but not dereferenced in this function (the field's storage is the struct's)
                self.nilcheck(st, base, x.get('line'))
                FA = z3.Function('fieldaddr', I, I, I)
                ref = FA(base.ref, z3.IntVal(x['sel']['index'][0]))
                st.assume(ref > 0)
                p = PtrV(ref, x['t'])
                p.opaque = True
                return p
            raise Unsupported('address of a field @%s' % x.get('line'))
        raise Unsupported('address-of @%s' % x.get('line'))

    def function_writes_heap(self):
        fr = self.frame
        if fr is None or getattr(fr, 'decl', None) is None:
            return True
        if '_wh' not in fr.__dict__:
            vs, fs, calls = set(), set(), []
            self.assigned_in(fr.decl.get('Body'), vs, fs, calls)
            fr._wh = bool(fs) or any(c[0] == 'elemwrite' for c in calls)
        return fr._wh

    def alloc(self, st, v, tid):
        ref = fresh('ref')
        st.assume(ref > 0)
        st.assume(ref >= self.cur_top(st))          # a new object: distinct from everything allocated before
        st.meta['top'] = ref + 1
        for r in st.meta.get('refs', []):
            st.assume(ref != r)
        st.meta['refs'] = st.meta.get('refs', []) + [ref]
        p = PtrV(ref, tid)
        self.store_ptr(st, p, v)
        st.meta.setdefault('fresh', set())
        st.meta['fresh'] = set(st.meta['fresh']) | {ref.get_id()}
        return p

    # allocation order ---------------------------------------------------------------------------
    # Object references are positive integers handed out in increasing order: `top` is a strict upper bound of every
    # reference that exists in the state (parameters, everything reachable from them, results of calls); a new object
    # gets a reference >= top.  The bounds are kept apart from the path condition (st.meta['afacts']) and enter an
    # obligation only when the path allocated something.
    TOP0 = z3.Int('alloctop0')

    def cur_top(self, st):
        return st.meta.get('top', self.TOP0)

    def bump_top(self, st):
        new = fresh('top')
        st.assume(new >= self.cur_top(st))
        st.meta['top'] = new
        return new

    def bound_terms(self, terms_slots, top):
        out = []
        for t, n in terms_slots:
            if n == 0:
                out.append(t < top)
            else:
                ks = [fresh('k!al') for _ in range(n)]
                x = t
                for kq in ks:
                    x = z3.Select(x, kq)
                out.append(z3.ForAll(ks, x < top, patterns=[x]))
        return out

    def bound_value(self, st, v, tid):
        """every reference inside v exists already (is below the current top)"""
        try:
            slots = self.lay.ref_slots(tid)
            if not slots:
                return
            flat = self.lay.flatten(v, tid)
        except Unsupported:
            return
        facts = self.bound_terms([(flat[i], n) for (i, n) in slots if z3.is_int(flat[i]) or z3.is_array(flat[i])], self.cur_top(st))
        st.meta['afacts'] = tuple(st.meta.get('afacts', ())) + tuple(facts)

    def bound_heap_comp(self, st, arr, tname, fname, i, top=None):
        """arr: a heap component (field fname, slot i) that was just created; references stored in it are below top"""
        ft = self.field_type(tname, fname)
        if ft is None:
            return []
        try:
            slots = dict(self.lay.ref_slots(ft))
        except Unsupported:
            return []
        if i not in slots:
            return []
        return self.bound_terms([(arr, slots[i] + 1)], self.cur_top(st) if top is None else top)

    def field_type(self, tname, fname):
        cache = self.__dict__.setdefault('_ftcache', None)
        if cache is None:
            cache = {}
            for tid in range(len(self.tt.t)):
                try:
                    if self.tt.kind(tid) == 'struct':
                        for f in self.tt.fields(tid):
                            cache.setdefault((self.tt.name(tid), f['n']), f['t'])
                    elif self.tt.kind(tid) == 'ptr':
                        cache.setdefault(('*' + self.tt[self.tt[tid]['e']]['s'], ''), self.tt[tid]['e'])
                except Exception:
                    pass
            self._ftcache = cache
        return cache.get((tname, fname))

    # heap access ---------------------------------------------------------------------------------
    def heap_arr(self, st, key, sort):
        if key not in st.heap:
            name = 'H_%s_%s_%d' % (re.sub(r'\W', '_', str(key[0])), key[1], key[2])
            st.heap[key] = z3.Const(name, z3.ArraySort(I, sort))
            if name not in self.heap_bounds:
                self.heap_bounds[name] = self.bound_heap_comp(st, st.heap[key], key[0], key[1], key[2], top=self.TOP0)
        return st.heap[key]

    def load_field(self, st, p, tname, fname, ftid):
        ss = self.lay.sorts(ftid)
        terms = [z3.Select(self.heap_arr(st, (tname, fname, i), s), p.ref) for i, s in enumerate(ss)]
        v = self.lay.unflatten(iter(terms), ftid)
        # type invariants hold of every value stored in the heap (lengths are non-negative, integers are in range);
        # the quantifier-free ones are recorded once per loaded term
        if not st.meta.get('concrete') and not st.guards and not mentions_bound(p.ref):
            try:
                seen = set(st.meta.get('wfseen', ()))       # (a private copy: states are cloned with shared meta values)
                st.meta['wfseen'] = seen
                from .smt import _has_q
                for w in self.lay.wf(v, ftid):
                    if w.get_id() in seen or _has_q(w):
                        continue
                    seen.add(w.get_id())
                    if simp_bool(w) is None:
                        st.assume(w)
            except Unsupported:
                pass
        return v

    def store_field(self, st, p, tname, fname, ftid, v):
        if st.guards:
            raise Unsupported('heap write under short-circuit guard')
        ss = self.lay.sorts(ftid)
        if isinstance(v, IfaceV) and self.tt.kind(ftid) in ('slice', 'map', 'ptr', 'func', 'chan') \
           and z3.is_int_value(z3.simplify(v.ref)) and z3.simplify(v.ref).as_long() == 0:
            v = self.lay.zero(ftid)            # the untyped nil assigned to a field of slice / map / pointer type
        for i, (s, t) in enumerate(zip(ss, self.lay.flatten(v, ftid))):
            ha = self.heap_arr(st, (tname, fname, i), s)
            if isinstance(t, z3.ExprRef) and ha.sort().range() != t.sort():
                raise Unsupported('store of a %s into field %s.%s slot %d of sort %s' % (t.sort(), tname, fname, i, ha.sort().range()))
            st.heap[(tname, fname, i)] = z3.Store(ha, p.ref, t)

    def load_ptr(self, st, p):
        if getattr(p, 'gobj', None) is not None:
            return self.global_var(st, p.gobj)
        if getattr(p, 'opaque', False):
            raise Unsupported('dereference of an interior pointer (&p.f)')
        tid = p.etid
        if self.tt.kind(tid) == 'struct':
            tn = self.tt.name(tid)
            return StructV(tid, {f['n']: self.load_field(st, p, tn, f['n'], f['t']) for f in self.tt.fields(tid)})
        return self.load_field(st, p, '*' + self.tt[tid]['s'], '', tid)

    def store_ptr(self, st, p, v):
        if getattr(p, 'gobj', None) is not None:
            self.global_var(st, p.gobj)
            st.ghost[('global', p.gobj.get('pkg', '') + '.' + p.gobj['name'])] = v
            return
        if getattr(p, 'opaque', False):
            raise Unsupported('store through an interior pointer (&p.f)')
        tid = p.etid
        if self.tt.kind(tid) == 'struct':
            tn = self.tt.name(tid)
            for f in self.tt.fields(tid):
                self.store_field(st, p, tn, f['n'], f['t'], v.fields[f['n']])
            return
        self.store_field(st, p, '*' + self.tt[tid]['s'], '', tid, v)

    def nilcheck(self, st, p, line):
        self.oblige(st, 'nil@%s' % line, p.ref != 0, src=line)

    def ev_StarExpr(self, st, e):
        p = self.ev(st, e['X'])
        self.nilcheck(st, p, e.get('line'))
        return self.load_ptr(st, p)

    def ev_SelectorExpr(self, st, e):
        sel = e.get('sel')
        if sel is None:
            # qualified identifier pkg.Name
            o = e['Sel'].get('obj')
            if o and o['kind'] == 'Var':
                return self.global_var(st, o)
            if o and o['kind'] == 'Func':
                return FuncV(key=o['full'])
            raise Unsupported('qualified identifier %s @%s' % (e['Sel']['Name'], e.get('line')))
        if sel['kind'] == 'field':
            return self.field_path(st, e)
        if sel['kind'] == 'method':
            recv = self.ev(st, e['X'])
            return FuncV(key=sel.get('full'), recv=recv)
        raise Unsupported('selector kind %s' % sel['kind'])

    def field_path(self, st, e):
        x = self.ev(st, e['X'])
        name = e['Sel']['Name']
        path = e['sel']['index']
        v = x
        xt = e['X']['t']
        for depth, idx in enumerate(path):
            if isinstance(v, PtrV):
                self.nilcheck(st, v, e.get('line'))
                tid = v.etid
                f = self.tt.fields(tid)[idx]
                v = self.load_field(st, v, self.tt.name(tid), f['n'], f['t'])
            elif isinstance(v, StructV):
                f = self.tt.fields(v.tid)[idx]
                v = v.fields[f['n']]
            else:
                raise Unsupported('field of %r @%s' % (v, e.get('line')))
        return v

    def ev_IndexExpr(self, st, e):
        xt = e['X'].get('t')
        if e['X'].get('isType') or (xt is not None and self.tt.kind(xt) == 'func'):
            return self.ev(st, e['X'])       # generic instantiation f[T]
        x = self.ev(st, e['X'])
        if isinstance(x, MapV):
            kx = self.mapkey(st, self.ev(st, e['Index']))
            present = z3.Select(x.dom, kx)
            vals = [z3.Select(a, kx) for a in x.vals]
            zero = self.lay.flatten(self.lay.zero(x.vtid), x.vtid)
            v = self.lay.unflatten(iter([z3.If(present, a, zz) for a, zz in zip(vals, zero)]), x.vtid)
            if self.tt.kind(e['t']) == 'tuple':
                return TupleV([v, present])
            return v
        i = self.ev(st, e['Index'])
        if isinstance(x, PtrV):      # pointer to array
            self.nilcheck(st, x, e.get('line'))
            x = self.load_ptr(st, x)
        return self.index(st, x, i, e.get('line'))

    def index(self, st, x, i, line):
        i = self.as_int(i)
        if isinstance(x, StrV):
            self.need_lit(st, x)
            self.oblige(st, 'bounds@%s' % line, z3.And(0 <= i, i < x.len), src=line)
            v = z3.Select(x.arr, x.off + i)
            st.assume(z3.And(v >= 0, v <= 255))
            return v
        if isinstance(x, SliceV):
            self.oblige(st, 'bounds@%s' % line, z3.And(0 <= i, i < x.len), src=line)
            terms = [z3.Select(a, x.off + i) for a in x.arrs]
            v = self.lay.unflatten(iter(terms), x.etid)
            self.elem_facts(st, v, x.etid)
            return v
        if isinstance(x, ArrayV):
            self.oblige(st, 'bounds@%s' % line, z3.And(0 <= i, i < x.n), src=line)
            terms = [z3.Select(a, i) for a in x.arrs]
            v = self.lay.unflatten(iter(terms), x.etid)
            self.elem_facts(st, v, x.etid)
            return v
        raise Unsupported('index of %r @%s' % (x, line))

    def need_lit(self, st, x):
        if isinstance(x, StrV) and x.lit is not None:
            done = st.meta.get('lits', frozenset())
            if x.lit not in done:
                st.meta['lits'] = done | {x.lit}
                st.pc += lit_facts(x)

    def elem_facts(self, st, v, etid):
        if isinstance(v, StrV):
            st.assume(z3.And(v.len >= 0, v.len <= MAXLEN, v.off >= 0, v.off <= MAXLEN))
            return
        if isinstance(v, SliceV):
            st.assume(z3.And(v.len >= 0, v.len <= v.cap, v.cap <= MAXLEN, v.off >= 0))
            return
        ii = self.tt.intinfo(etid)
        if ii and ii[0] and self.mode != 'bv' and isinstance(v, z3.ExprRef):
            w, s = ii
            st.assume(z3.And(v >= (-(1 << (w - 1)) if s else 0), v <= ((1 << (w - 1)) - 1 if s else (1 << w) - 1)))

    def as_int(self, v):
        if z3.is_bv(v):
            return z3.BV2Int(v)
        return v

    def mapkey(self, st, k):
        if isinstance(k, StrV):
            if k.lit is not None:
                return self.strlit_id(k.lit)
            return self.str_ident(k.arr, k.off, k.len)
        if isinstance(k, (PtrV, IfaceV)):
            return k.ref
        if isinstance(k, StructV):
            from .golib import chain
            self.use_ident = True
            return chain([self.mapkey(st, k.fields[f['n']]) for f in self.tt.fields(k.tid)])
        return k

    _litids = {}
    def strlit_id(self, b):
        l = strlit(b)
        return self.str_ident(l.arr, l.off, l.len)

    def ev_SliceExpr(self, st, e):
        x = self.ev(st, e['X'])
        line = e.get('line')
        if isinstance(x, PtrV):
            self.nilcheck(st, x, line)
            x = self.load_ptr(st, x)
        lo = self.as_int(self.ev(st, e['Low'])) if 'Low' in e else z3.IntVal(0)
        if isinstance(x, StrV):
            hi = self.as_int(self.ev(st, e['High'])) if 'High' in e else x.len
            self.oblige(st, 'slicebounds@%s' % line, z3.And(0 <= lo, lo <= hi, hi <= x.len), src=line)
            return StrV(x.arr, x.off + lo, hi - lo)
        if isinstance(x, SliceV):
            hi = self.as_int(self.ev(st, e['High'])) if 'High' in e else x.len
            mx = self.as_int(self.ev(st, e['Max'])) if 'Max' in e else x.cap
            self.oblige(st, 'slicebounds@%s' % line, z3.And(0 <= lo, lo <= hi, hi <= mx, mx <= x.cap), src=line)
            return SliceV(x.arrs, x.off + lo, hi - lo, mx - lo, x.etid, z3.And(x.isnil))
        if isinstance(x, ArrayV):
            raise Unsupported('slicing an array value (needs addressable storage) @%s' % line)
        raise Unsupported('slice of %r @%s' % (x, line))

    def ev_CompositeLit(self, st, e):
        tid = e['t']
        k = self.tt.kind(tid)
        if k == 'ptr':           # elided &T{...} inside a composite literal of pointers
            inner = dict(e); inner['t'] = self.tt[tid]['e']
            return self.alloc(st, self.ev_CompositeLit(st, inner), self.tt[tid]['e'])
        if k == 'struct':
            v = self.lay.zero(tid)
            fs = self.tt.fields(tid)
            for i, el in enumerate(e.get('Elts', [])):
                if el['_'] == 'KeyValueExpr':
                    v.fields[el['Key']['Name']] = copyval(self.ev(st, el['Value']))
                else:
                    v.fields[fs[i]['n']] = copyval(self.ev(st, el))
            return v
        if k in ('slice', 'array'):
            etid = self.tt[tid]['e']
            es = self.lay.sorts(etid)
            arrs = [fresh('lit.arr', z3.ArraySort(I, s)) for s in es]
            idx = 0
            n = 0
            for el in e.get('Elts', []):
                if el['_'] == 'KeyValueExpr':
                    idx = int(el['Key']['cv']); val = el['Value']
                else:
                    val = el
                if val['_'] == 'CompositeLit' and 't' not in val:
                    val = dict(val); val['t'] = etid
                v = self.ev(st, val)
                for a, t in zip(arrs, self.lay.flatten(v, etid)):
                    st.assume(z3.Select(a, idx) == t)
                idx += 1
                n = max(n, idx)
            if k == 'array':
                return ArrayV(arrs, self.tt[tid]['n'], etid)
            return SliceV(arrs, z3.IntVal(0), z3.IntVal(n), z3.IntVal(n), etid)
        if k == 'map':
            m = self.lay.zero(tid)
            m.isnil = z3.BoolVal(False)
            for el in e.get('Elts', []):
                kk = self.mapkey(st, self.ev(st, el['Key']))
                vv = self.ev(st, el['Value'])
                m.dom = z3.Store(m.dom, kk, z3.BoolVal(True))
                m.vals = [z3.Store(a, kk, t) for a, t in zip(m.vals, self.lay.flatten(vv, m.vtid))]
            return m
        raise Unsupported('composite literal of %s' % self.tt[tid]['s'])

    def ev_FuncLit(self, st, e):
        return FuncV(lit=e, env=st)

    def ev_TypeAssertExpr(self, st, e):
        return self.type_assert(st, e, commaok=False)

    def type_tag(self, tid):
        return z3.IntVal(1000 + tid)

    def unbox(self, st, x, tid):
        if isinstance(x, IfaceV) and x.concrete is not None and x.tid == tid:
            return x.concrete
        if self.tt.kind(tid) == 'iface':
            return x
        if self.tt.kind(tid) == 'ptr':
            # interfaces holding pointers are identified with the pointer (see box): a non-nil interface holds a non-nil pointer
            return PtrV(x.ref, self.tt[tid]['e'])
        v = self.lay.fresh(tid, 'unbox')
        for w in self.lay.wf(v, tid): st.assume(w)
        return v

    def ev_KeyValueExpr(self, st, e):
        raise Unsupported('key-value')

def _b64(x):
    import base64
    if x is None:
        return b''
    if isinstance(x, str):
        return base64.b64decode(x)
    return bytes(x)
