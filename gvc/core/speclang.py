import os
# Contract language: parser for `//@` contract files and for the Go-like expressions inside them.
import re

class SpecError(Exception):
    pass

TOKEN_RE = re.compile(r'''
    (?P<ws>\s+)
  | (?P<hex>0[xX][0-9a-fA-F_]+)
  | (?P<int>\d[\d_]*)
  | (?P<char>'(?:\\.|\\x[0-9a-fA-F]{2}|[^'\\])')
  | (?P<str>"(?:\\.|[^"\\])*")
  | (?P<id>[A-Za-z_$][A-Za-z0-9_$]*)
  | (?P<op><==>|==>|&&|\|\||==|!=|<=|>=|<<|>>|&\^|[-+*/%&|^<>!?:(),.\[\]{}=#@])
''', re.X)

def tokenize(s):
    toks, i = [], 0
    while i < len(s):
        m = TOKEN_RE.match(s, i)
        if not m:
            raise SpecError('bad character %r in %r' % (s[i], s))
        i = m.end()
        k = m.lastgroup
        if k == 'ws':
            continue
        toks.append((k, m.group(k)))
    toks.append(('eof', ''))
    return toks

def _unescape(body):
    out, i = bytearray(), 0
    esc = {'n': 10, 't': 9, 'r': 13, 'b': 8, 'f': 12, 'v': 11, '\\': 92, "'": 39, '"': 34, '0': 0, 'a': 7}
    while i < len(body):
        c = body[i]
        if c == '\\':
            n = body[i + 1]
            if n == 'x':
                out.append(int(body[i + 2:i + 4], 16)); i += 4; continue
            out.append(esc[n]); i += 2; continue
        out += c.encode('utf-8'); i += 1
    return bytes(out)

BINPREC = {
    '<==>': 1, '==>': 2, '||': 4, '&&': 5,
    '==': 6, '!=': 6, '<': 6, '<=': 6, '>': 6, '>=': 6,
    '+': 7, '-': 7, '|': 7, '^': 7,
    '*': 8, '/': 8, '%': 8, '<<': 8, '>>': 8, '&': 8, '&^': 8,
}

class Parser:
    def __init__(self, text):
        self.text = text
        self.toks = tokenize(text)
        self.i = 0
    def peek(self): return self.toks[self.i]
    def next(self):
        t = self.toks[self.i]; self.i += 1; return t
    def accept(self, v):
        if self.toks[self.i][1] == v and self.toks[self.i][0] in ('op', 'id'):
            self.i += 1; return True
        return False
    def expect(self, v):
        if not self.accept(v):
            raise SpecError('expected %r at token %d (%r) in %r' % (v, self.i, self.toks[self.i][1], self.text))
    def parse(self):
        e = self.expr(0)
        if self.peek()[0] != 'eof':
            raise SpecError('trailing input %r in %r' % (self.peek()[1], self.text))
        return e
    def expr(self, minprec):
        lhs = self.unary()
        while True:
            k, v = self.peek()
            if k == 'op' and v == '?' and minprec <= 3:
                self.next()
                a = self.expr(3)
                self.expect(':')
                b = self.expr(3)
                lhs = ('cond', lhs, a, b)
                continue
            if k != 'op' or v not in BINPREC:
                return lhs
            p = BINPREC[v]
            if p < minprec:
                return lhs
            self.next()
            if v == '==>':
                rhs = self.expr(p)       # right associative
            else:
                rhs = self.expr(p + 1)
            lhs = ('bin', v, lhs, rhs)
    def unary(self):
        k, v = self.peek()
        if k == 'op' and v in ('!', '-', '^', '+'):
            self.next()
            return ('un', v, self.unary())
        return self.postfix(self.atom())
    def atom(self):
        k, v = self.next()
        if k == 'hex':
            return ('int', int(v.replace('_', ''), 16))
        if k == 'int':
            return ('int', int(v.replace('_', '')))
        if k == 'char':
            b = _unescape(v[1:-1])
            if len(b) == 1:
                return ('int', b[0])
            return ('int', ord(b.decode('utf-8')))
        if k == 'str':
            return ('str', _unescape(v[1:-1]))
        if k == 'id':
            if v == 'true': return ('bool', True)
            if v == 'false': return ('bool', False)
            return ('id', v)
        if k == 'op' and v == '(':
            e = self.expr(0)
            self.expect(')')
            return e
        raise SpecError('unexpected token %r in %r' % (v, self.text))
    def postfix(self, e):
        while True:
            k, v = self.peek()
            if k == 'op' and v == '(':
                self.next()
                args = []
                if not self.accept(')'):
                    while True:
                        args.append(self.expr(0))
                        if self.accept(')'):
                            break
                        self.expect(',')
                e = ('call', e, args)
            elif k == 'op' and v == '[':
                self.next()
                lo = hi = None
                if self.peek()[1] != ':':
                    lo = self.expr(0)
                if self.accept(':'):
                    if self.peek()[1] != ']':
                        hi = self.expr(0)
                    self.expect(']')
                    e = ('slice', e, lo, hi)
                else:
                    self.expect(']')
                    e = ('idx', e, lo)
            elif k == 'op' and v == '.':
                self.next()
                k2, v2 = self.next()
                if k2 != 'id':
                    raise SpecError('selector expects identifier in %r' % self.text)
                e = ('sel', e, v2)
            else:
                return e

def parse_expr(text):
    return Parser(text).parse()

def free_ids(e, acc=None):
    acc = set() if acc is None else acc
    if isinstance(e, tuple):
        if e[0] == 'id':
            acc.add(e[1])
        for x in e[1:]:
            if isinstance(x, (tuple, list)):
                free_ids(x, acc)
    elif isinstance(e, list):
        for x in e:
            free_ids(x, acc)
    return acc

# ------------------------------------------------------------------------------------------------
# contract files

CLAUSES = {'requires', 'ensures', 'panics_if', 'panics_only_if', 'throws_if', 'loop', 'mode', 'inline', 'assigns', 'uses', 'ghost', 'assume',
           'unroll', 'after', 'at', 'note', 'pre_note', 'cover', 'opaque', 'replay', 'bounded', 'abstract', 'let', 'trusted', 'returns_struct', 'param', 'results', 'oncall', 'induct', 'hint', 'unfold', 'initval', 'recv_may_be_nil', 'crashinv', 'returns', 'preserves', 'interpret', 'throws_msg', 'trusted_until_proved', 'panic_ensures', 'word', 'prune', 'captured', 'throws_when', 'abstract_rest'}
TOP = {'func', 'js', 'pure', 'axiom', 'lemma', 'region', 'extern', 'property', 'pattern', 'table', 'site', 'const', 'sort', 'ufunc', 'ghostfn'}

class Clause:
    def __init__(self, kind, text, line, file):
        self.kind, self.text, self.line, self.file = kind, text, line, file
        self._expr = None
    @property
    def expr(self):
        if self._expr is None:
            self._expr = parse_expr(self.text)
        return self._expr
    def __repr__(self):
        return '%s %s' % (self.kind, self.text)

class Contract:
    def __init__(self, kind, key, file, line, header=''):
        self.kind, self.key, self.file, self.line, self.header = kind, key, file, line, header
        self.clauses = []
        self.props = set()
    def get(self, kind):
        return [c for c in self.clauses if c.kind == kind]
    def loops(self):
        """loop clauses: 'loop <n> invariant|decreases|assigns|unroll <text>'"""
        out = {}
        for c in self.get('loop'):
            m = re.match(r'(\S+)\s+(\w+)\s*(.*)$', c.text, re.S)
            if not m:
                raise SpecError('%s:%d: bad loop clause %r' % (c.file, c.line, c.text))
            no, what, rest = m.group(1), m.group(2), m.group(3)
            out.setdefault(no, {}).setdefault(what, []).append(Clause(what, rest, c.line, c.file))
        return out

class SpecFile:
    def __init__(self):
        self.contracts = []       # func / js / region / pattern contracts
        self.pures = {}           # name -> (params [(name, type)], rettype, body expr | None, unfold)
        self.axioms = []          # (name, Clause)
        self.lemmas = {}
        self.externs = {}         # assumed contracts for external functions: key -> Contract
        self.consts = {}
        self.ghostfns = {}
        self.assumption_notes = []

def parse_params(s):
    """'a int, b []byte, c, d int' -> [(name, type)]"""
    out, pend = [], []
    for part in [p.strip() for p in split_top(s, ',') if p.strip()]:
        bits = part.split(None, 1)
        if len(bits) == 1:
            pend.append(bits[0])
        else:
            for n in pend:
                out.append((n, bits[1].strip()))
            pend = []
            out.append((bits[0], bits[1].strip()))
    for n in pend:
        out.append((n, 'int'))
    return out

def split_top(s, sep):
    out, depth, cur = [], 0, ''
    for ch in s:
        if ch in '([{': depth += 1
        if ch in ')]}': depth -= 1
        if ch == sep and depth == 0:
            out.append(cur); cur = ''
        else:
            cur += ch
    out.append(cur)
    return out

def parse_spec_text(text, fname, sf=None):
    sf = sf or SpecFile()
    cur = None
    last = None       # last clause, for continuation lines
    for ln, raw in enumerate(text.splitlines(), 1):
        s = raw.strip()
        if not s.startswith('//@'):
            continue
        body = s[3:]
        cpos = body.find(' //')      # trailing comment
        if cpos >= 0 and body.count('"', 0, cpos) % 2 == 0:
            body = body[:cpos]
        body = body.strip()
        if not body:
            continue
        m = re.match(r'([A-Za-z_]+)\b\s*(.*)$', body, re.S)
        word = m.group(1) if m else ''
        rest = m.group(2) if m else ''
        if word in TOP:
            last = None
            if word in ('func', 'js', 'region', 'pattern', 'site', 'table'):
                parts = rest.split(None, 1) if word not in ('js',) else [rest]
                key = rest.strip()
                cur = Contract(word, key, fname, ln)
                sf.contracts.append(cur)
            elif word == 'extern':
                cur = Contract('extern', rest.strip(), fname, ln)
                if cur.key in sf.externs:
                    sf.__dict__.setdefault('extern_redeclared', []).append((cur.key, sf.externs[cur.key], cur))
                sf.externs[cur.key] = cur
            elif word == 'property':
                if cur is not None:
                    cur.props |= set(rest.replace(',', ' ').split())
            elif word == 'pure':
                # pure name(params) type = expr     |  pure name(params) type   (uninterpreted)
                m2 = re.match(r'(\w+)\s*\((.*?)\)\s*([\w\[\]]+)\s*(?:=\s*(.*))?$', rest, re.S)
                if not m2:
                    raise SpecError('%s:%d: bad pure declaration' % (fname, ln))
                name, params, rt, bodytxt = m2.groups()
                cl = Clause('pure', bodytxt or '', ln, fname)
                sf.pures[name] = {'params': parse_params(params), 'ret': rt, 'body': cl if bodytxt else None, 'line': ln, 'file': fname, 'rec': False}
                cur = None
                last = cl if bodytxt else None
            elif word == 'axiom':
                m3 = re.match(r'(\w+)\s*\((.*?)\)\s*:\s*(.*)$', rest, re.S)
                m2 = re.match(r'(\w+)\s*:\s*(.*)$', rest, re.S)
                if m3:      # parameterised definition: instantiated explicitly with `use name(args)`
                    cur = Contract('lemma', m3.group(1), fname, ln, header=m3.group(2))
                    cur.is_axiom = True
                    cl = Clause('ensures', m3.group(3), ln, fname)
                    cur.clauses.append(cl)
                    sf.lemmas[cur.key] = cur
                    last = cl
                    continue
                if not m2:
                    raise SpecError('%s:%d: bad axiom' % (fname, ln))
                cl = Clause('axiom', m2.group(2), ln, fname)
                sf.axioms.append((m2.group(1), cl))
                cur = None
                last = cl
            elif word == 'lemma':
                m2 = re.match(r'(\w+)\s*\((.*?)\)\s*$', rest, re.S)
                if not m2:
                    raise SpecError('%s:%d: bad lemma header' % (fname, ln))
                cur = Contract('lemma', m2.group(1), fname, ln, header=m2.group(2))
                sf.lemmas[cur.key] = cur
            elif word == 'ghostfn':
                nm, ty = rest.split()
                sf.ghostfns[nm] = ty
                cur = None
            elif word == 'const':
                m2 = re.match(r'(\w+)\s*=\s*(.*)$', rest)
                sf.consts[m2.group(1)] = parse_expr(m2.group(2))
                cur = None
            else:
                raise SpecError('%s:%d: unsupported top-level %r' % (fname, ln, word))
            continue
        if word in CLAUSES and cur is not None:
            cl = Clause(word, rest, ln, fname)
            cur.clauses.append(cl)
            last = cl
            continue
        if word == 'end':
            cur = None; last = None
            continue
        if last is not None:          # continuation line
            last.text += ' ' + body
            last._expr = None
            continue
        raise SpecError('%s:%d: cannot parse contract line %r' % (fname, ln, body))
    return sf

def _calls(e, acc):
    if isinstance(e, tuple):
        if e[0] == 'call' and e[1][0] == 'id':
            acc.add(e[1][1])
        for x in e[1:]:
            if isinstance(x, (tuple, list)):
                _calls(x, acc)
    elif isinstance(e, list):
        for x in e:
            _calls(x, acc)

def load_spec_files(paths):
    sf = SpecFile()
    for p in paths:
        with open(p) as f:
            parse_spec_text(f.read(), p, sf)
    # an assumed contract declared twice: the later declaration is the one in force; say so when the two differ
    for key, a, b in getattr(sf, 'extern_redeclared', []):
        ta, tb = [(c.kind, c.text.strip()) for c in a.clauses], [(c.kind, c.text.strip()) for c in b.clauses]
        if ta != tb:
            sf.assumption_notes.append('extern %s is declared twice with different clauses (%s:%s and %s:%s): the later one is in force' % (key, os.path.basename(a.file), a.line, os.path.basename(b.file), b.line))
    for name, p in sf.pures.items():
        if p['body'] is not None:
            acc = set()
            _calls(p['body'].expr, acc)
            p['rec'] = name in acc
    return sf
