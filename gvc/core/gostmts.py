# Statements, loops (cut points with invariants), function-level verification.
import z3, re
from .values import *
from .gostate import *
from .gospec import SpecEnv
from .goexec import PanicEx, ReturnEx, PathEnd, BreakEx, ContinueEx, simp_bool, Frame
from . import speclang

class StmtsMixin:
    def block(self, st, lst):
        saved = dict(st.names)
        try:
            for s in lst or []:
                self.stmt(st, s)
        except (ReturnEx, PanicEx):
            raise                      # keep the scope: function-level hints and postconditions may name locals
        except BaseException:
            st.names = saved
            raise
        st.names = saved

    def stmt(self, st, s):
        m = getattr(self, 'st_' + s['_'], None)
        if m is None:
            raise Unsupported('statement %s @%s' % (s['_'], s.get('line')))
        return m(st, s)

    def st_BlockStmt(self, st, s):
        self.block(st, s.get('List'))

    def st_ExprStmt(self, st, s):
        self.ev(st, s['X'])

    def st_EmptyStmt(self, st, s):
        pass

    def st_DeclStmt(self, st, s):
        d = s['Decl']
        for sp in d.get('Specs', []):
            if sp['_'] != 'ValueSpec':
                continue
            vals = [self.ev(st, v) for v in sp.get('Values', [])] if sp.get('Values') else None
            if vals is not None and len(vals) == 1 and len(sp['Names']) > 1:
                vals = vals[0].vals
            for i, n in enumerate(sp['Names']):
                o = n.get('obj')
                if o is None or o['kind'] != 'Var':
                    continue
                if vals is not None:
                    v = copyval(vals[i])
                    if sp.get('Type') is not None:
                        v = self.implicit_convert(st, v, sp['Values'][i].get('t') if len(sp.get('Values', [])) > i else None, o['t'])
                else:
                    v = self.lay.zero(o['t'])
                st.env[o['id']] = v
                st.names[n['Name']] = o['id']

    def implicit_convert(self, st, v, from_tid, to_tid):
        if to_tid is None:
            return v
        if self.tt.kind(to_tid) == 'iface' and not isinstance(v, IfaceV):
            return self.box(st, v, from_tid)
        return v

    def st_IncDecStmt(self, st, s):
        x = self.ev(st, s['X'])
        one = z3.BitVecVal(1, x.size()) if z3.is_bv(x) else 1
        v = x + one if s['Tok'] == '++' else x - one
        v = self.wrap(v, s['X']['t'], st, s.get('line'))
        self.assign_to(st, s['X'], v)

    def st_AssignStmt(self, st, s):
        tok = s['Tok']
        lhs, rhs = s['Lhs'], s['Rhs']
        if tok not in ('=', ':='):
            op = tok[:-1]
            a = self.ev(st, lhs[0]); b = self.ev(st, rhs[0])
            v = self.binop(st, op, a, b, lhs[0].get('t'), rhs[0].get('t'), lhs[0].get('t'), s.get('line'))
            self.assign_to(st, lhs[0], v)
            return
        if len(rhs) == 1 and len(lhs) > 1:
            r = rhs[0]
            if r['_'] == 'TypeAssertExpr':
                v = self.type_assert(st, r, commaok=True)
            else:
                v = self.ev(st, r)
            vals = v.vals
            rts = self.tt[r['t']]['es'] if r.get('t') is not None and self.tt.kind(r['t']) == 'tuple' else [None] * len(vals)
        else:
            vals = [self.ev(st, r) for r in rhs]
            rts = [r.get('t') for r in rhs]
        vals = [copyval(v) for v in vals]
        if len(rhs) == len(lhs):
            for l, r in zip(lhs, rhs):
                rr = r
                while rr.get('_') == 'ParenExpr': rr = rr['X']
                if not (l['_'] == 'Ident' and l['Name'] == '_') and rr.get('t') is not None and self.tt.kind(rr['t']) == 'map' \
                   and rr.get('_') in ('Ident', 'SelectorExpr') and not rr.get('cv') and self.function_writes_maps():
                    # maps are modelled as values held by one variable or field; a second name for the same map would not
                    # see writes through the first (G0 limitation, refused rather than mis-modelled)
                    raise Unsupported('a map is given a second name (%s @%s) in a function that writes map elements' % (rr.get('Name') or rr.get('Sel', {}).get('Name'), s.get('line')))
        for l, v, rt in zip(lhs, vals, rts):
            if l['_'] == 'Ident' and l['Name'] == '_':
                continue
            if tok == ':=' and l['_'] == 'Ident' and l.get('obj') and l['obj']['id'] not in st.env:
                st.names[l['Name']] = l['obj']['id']
            if l['_'] == 'Ident' and l.get('obj'):
                v = self.implicit_convert(st, v, rt, l['obj'].get('t'))
            self.assign_to(st, l, v)

    def function_writes_maps(self):
        fr = self.frame
        if fr is None or getattr(fr, 'decl', None) is None:
            return True
        if '_wm' not in fr.__dict__:
            found = [False]
            def walk(n):
                if isinstance(n, list):
                    for x in n: walk(x)
                elif isinstance(n, dict):
                    k = n.get('_')
                    tg = []
                    if k == 'AssignStmt': tg = n['Lhs']
                    elif k == 'IncDecStmt': tg = [n['X']]
                    elif k == 'CallExpr' and n.get('Fun', {}).get('Name') == 'delete': found[0] = True
                    for t in tg:
                        while t.get('_') == 'ParenExpr': t = t['X']
                        if t.get('_') == 'IndexExpr' and t['X'].get('t') is not None and self.tt.kind(t['X']['t']) == 'map':
                            found[0] = True
                    for kk, v in n.items():
                        if kk not in ('obj', 'sel', 'implicit') and isinstance(v, (dict, list)): walk(v)
            walk(fr.decl.get('Body'))
            fr._wm = found[0]
        return fr._wm

    def assign_to(self, st, l, v):
        k = l['_']
        if k == 'ParenExpr':
            return self.assign_to(st, l['X'], v)
        if k == 'Ident':
            if l['Name'] == '_':
                return
            o = l['obj']
            if o.get('global'):
                if st.guards: raise Unsupported('global write under guard')
                self.global_var(st, o)        # make sure the entry snapshot has the initial value
                st.ghost[('global', o.get('pkg', '') + '.' + o['name'])] = v
                return
            if st.guards:
                raise Unsupported('assignment under short-circuit guard')
            bx = st.meta.get('boxed')
            if bx and o['id'] in bx:
                self.store_ptr(st, bx[o['id']], v)
                return
            st.env[o['id']] = v
            st.names.setdefault(l['Name'], o['id'])
            return
        if k == 'SelectorExpr' and l.get('sel') is None:
            o = l['Sel'].get('obj') or {}
            if o.get('kind') == 'Var' and o.get('global'):
                if st.guards: raise Unsupported('global write under guard')
                self.global_var(st, o)
                st.ghost[('global', o.get('pkg', '') + '.' + o['name'])] = v
                return
            raise Unsupported('assignment to qualified identifier')
        if k == 'SelectorExpr':
            base = self.ev(st, l['X'])
            path = l['sel']['index']
            self.assign_field(st, l['X'], base, path, v, l.get('line'))
            return
        if k == 'IndexExpr':
            x = self.ev(st, l['X'])
            if isinstance(x, MapV):
                self.oblige(st, 'nilmap@%s' % l.get('line'), z3.Not(x.isnil), src=l.get('line'))
                kx = self.mapkey(st, self.ev(st, l['Index']))
                m2 = MapV(z3.Store(x.dom, kx, z3.BoolVal(True)), [z3.Store(a, kx, t) for a, t in zip(x.vals, self.lay.flatten(v, x.vtid))], x.ktid, x.vtid, x.isnil)
                self.assign_to(st, l['X'], m2)
                return
            i = self.as_int(self.ev(st, l['Index']))
            line = l.get('line')
            if isinstance(x, PtrV):
                self.nilcheck(st, x, line)
                arrv = self.load_ptr(st, x)
                self.oblige(st, 'bounds@%s' % line, z3.And(0 <= i, i < arrv.n), src=line)
                arrv.arrs = [z3.Store(a, i, t) for a, t in zip(arrv.arrs, self.lay.flatten(v, arrv.etid))]
                self.store_ptr(st, x, arrv)
                return
            if isinstance(x, SliceV):
                self.oblige(st, 'bounds@%s' % line, z3.And(0 <= i, i < x.len), src=line)
                new = [z3.Store(a, x.off + i, t) for a, t in zip(x.arrs, self.lay.flatten(v, x.etid))]
                fa = st.meta.get('fresh_arrs', set())
                if any(a.get_id() in fa for a in x.arrs):
                    st.meta['fresh_arrs'] = set(fa) | {n.get_id() for n in new}
                self.replace_arrays(st, x.arrs, new)
                lx = l['X']
                while lx['_'] == 'ParenExpr': lx = lx['X']
                if lx['_'] != 'Ident':
                    # the slice lives in a field / behind a pointer: the updated array has to be stored there too
                    # (replace_arrays only reaches values that mention the old array term)
                    self.assign_to(st, lx, SliceV(new, x.off, x.len, x.cap, x.etid, x.isnil))
                return
            if isinstance(x, ArrayV):
                self.oblige(st, 'bounds@%s' % line, z3.And(0 <= i, i < x.n), src=line)
                x2 = ArrayV([z3.Store(a, i, t) for a, t in zip(x.arrs, self.lay.flatten(v, x.etid))], x.n, x.etid)
                self.assign_to(st, l['X'], x2)
                return
            raise Unsupported('index assignment to %r' % (x,))
        if k == 'StarExpr':
            p = self.ev(st, l['X'])
            self.nilcheck(st, p, l.get('line'))
            self.store_ptr(st, p, v)
            return
        raise Unsupported('assignment target %s @%s' % (k, l.get('line')))

    def assign_field(self, st, xnode, base, path, v, line):
        if isinstance(base, PtrV):
            self.nilcheck(st, base, line)
            tid = base.etid
            f = self.tt.fields(tid)[path[0]]
            if len(path) == 1:
                self.store_field(st, base, self.tt.name(tid), f['n'], f['t'], v)
            else:
                inner = self.load_field(st, base, self.tt.name(tid), f['n'], f['t'])
                if isinstance(inner, PtrV):
                    self.assign_field(st, None, inner, path[1:], v, line)
                else:
                    inner = self.set_in_struct(inner, path[1:], v)
                    self.store_field(st, base, self.tt.name(tid), f['n'], f['t'], inner)
            return
        if isinstance(base, StructV):
            nv = self.set_in_struct(base, path, v)
            self.assign_to(st, xnode, nv)
            return
        raise Unsupported('field assignment on %r' % (base,))

    def set_in_struct(self, sv, path, v):
        sv = sv.copy()
        f = self.tt.fields(sv.tid)[path[0]]
        if len(path) == 1:
            sv.fields[f['n']] = v
        else:
            sv.fields[f['n']] = self.set_in_struct(sv.fields[f['n']], path[1:], v)
        return sv

    def st_IfStmt(self, st, s):
        saved = dict(st.names)
        try:
            if s.get('Init'):
                self.stmt(st, s['Init'])
            c = self.ev(st, s['Cond'])
            if self.fork(st, c):
                self.block(st, s['Body'].get('List'))
            elif s.get('Else'):
                self.stmt(st, s['Else'])
        finally:
            st.names = saved

    def st_ReturnStmt(self, st, s):
        rs = s.get('Results')
        if not rs:
            vals = [self.read_var(st, oid) for oid in st.results.values()]
        else:
            vals = [self.ev(st, r) for r in rs]
            if len(vals) == 1 and isinstance(vals[0], TupleV):
                vals = vals[0].vals
            rts = self.rtype_stack[-1] if getattr(self, 'rtype_stack', None) else None
            if rts and len(rts) == len(vals):
                vals = [self.conv_result(st, v, r, t) for v, r, t in zip(vals, rs if len(rs) == len(vals) else [None] * len(vals), rts)]
        raise ReturnEx([copyval(v) for v in vals])

    def conv_result(self, st, v, node, tid):
        """implicit conversion of a returned operand to the declared result type (nil, boxing into interfaces)"""
        if tid is None: return v
        k = self.tt.kind(tid)
        if isinstance(v, IfaceV) and k not in ('iface', 'typeparam') and node is not None and (node.get('isNil') or node.get('Name') == 'nil'):
            return self.lay.zero(tid)
        if k == 'iface' and not isinstance(v, IfaceV):
            return self.box(st, v, node.get('t') if node else None)
        return v

    def st_BranchStmt(self, st, s):
        lab = s['Label']['Name'] if s.get('Label') else None
        if s['Tok'] == 'break': raise BreakEx(lab)
        if s['Tok'] == 'continue': raise ContinueEx(lab)
        raise Unsupported('branch %s' % s['Tok'])

    def st_LabeledStmt(self, st, s):
        st.meta['label'] = s['Label']['Name']
        self.stmt(st, s['Stmt'])

    def st_DeferStmt(self, st, s):
        call = s['Call']
        st.defers = st.defers + [call]

    def st_SwitchStmt(self, st, s):
        saved = dict(st.names)
        try:
            if s.get('Init'):
                self.stmt(st, s['Init'])
            tag = self.ev(st, s['Tag']) if s.get('Tag') else None
            clauses = s['Body'].get('List') or []
            default = None
            taken = None
            for cc in clauses:
                if not cc.get('List'):
                    default = cc
                    continue
                conds = []
                for x in cc['List']:
                    xv = self.ev(st, x)
                    conds.append(self.equal(st, tag, xv) if tag is not None else xv)
                c = z3.Or(conds) if len(conds) > 1 else conds[0]
                if self.fork(st, c):
                    taken = cc
                    break
            if taken is None:
                taken = default
            if taken is not None:
                try:
                    self.block(st, taken.get('Body'))
                except BreakEx as b:
                    if b.label is not None:
                        raise
        finally:
            st.names = saved

    def st_TypeSwitchStmt(self, st, s):
        saved = dict(st.names)
        try:
            if s.get('Init'):
                self.stmt(st, s['Init'])
            a = s['Assign']
            ta = a['Rhs'][0] if a['_'] == 'AssignStmt' else a['X']
            x = self.ev(st, ta['X'])
            if not isinstance(x, IfaceV):
                raise Unsupported('type switch on non-interface value')
            if x.tag is None:
                x.tag = fresh('tag')
            default, taken, ttid = None, None, None
            for cc in s['Body'].get('List') or []:
                if not cc.get('List'):
                    default = cc; continue
                conds = []
                for t in cc['List']:
                    if t.get('isNil') or (t['_'] == 'Ident' and t['Name'] == 'nil'):
                        conds.append(x.ref == 0)
                    elif self.tt.kind(t['t']) == 'iface':
                        raise Unsupported('type switch case on interface type')
                    else:
                        conds.append(z3.And(x.ref != 0, x.tag == self.type_tag(t['t'])))
                if self.fork(st, z3.Or(conds) if len(conds) > 1 else conds[0]):
                    taken = cc
                    ttid = cc['List'][0]['t'] if len(cc['List']) == 1 and not cc['List'][0].get('isNil') else None
                    break
            if taken is None:
                taken = default
            if taken is not None:
                imp = taken.get('implicit')
                if imp is not None:
                    st.env[imp['id']] = self.unbox(st, x, ttid) if ttid is not None else x
                    st.names[imp['name']] = imp['id']
                try:
                    self.block(st, taken.get('Body'))
                except BreakEx as b:
                    if b.label is not None:
                        raise
        finally:
            st.names = saved

    def type_assert(self, st, e, commaok):
        x = self.ev(st, e['X'])
        tid = e['Type']['t']
        if not isinstance(x, IfaceV):
            raise Unsupported('type assertion on non-interface')
        if x.tag is None:
            x.tag = fresh('tag')
        if self.tt.kind(tid) == 'iface':
            raise Unsupported('assertion to interface type @%s' % e.get('line'))
        ok = z3.And(x.ref != 0, x.tag == self.type_tag(tid))
        if commaok:
            v = self.unbox(st, x, tid)
            return TupleV([v, ok])
        if not self.fork(st, ok):
            raise PanicEx('type assertion failed@%s' % e.get('line'))
        return self.unbox(st, x, tid)

    # ---------------------------------------------------------------------------------- loops
    def loop_id(self, s):
        return self.frame.loops.get((s['line'], s['col']))

    def st_ForStmt(self, st, s):
        self.run_loop(st, s, 'for')

    def st_RangeStmt(self, st, s):
        self.run_loop(st, s, 'range')

    def assigned_in(self, node, acc_vars, acc_fields, acc_calls):
        if isinstance(node, list):
            for x in node: self.assigned_in(x, acc_vars, acc_fields, acc_calls)
            return
        if not isinstance(node, dict):
            return
        k = node.get('_')
        targets = []
        if k == 'AssignStmt':
            targets = node['Lhs']
        elif k == 'IncDecStmt':
            targets = [node['X']]
        elif k == 'RangeStmt':
            targets = [x for x in (node.get('Key'), node.get('Value')) if x]
        elif k == 'CallExpr' and node.get('Fun', {}).get('_') == 'Ident' and node['Fun'].get('Name') == 'delete' \
                and (node['Fun'].get('isBuiltin') or (node['Fun'].get('obj') or {}).get('kind') == 'Builtin') and node.get('Args'):
            targets = [node['Args'][0]]          # delete(m, k) assigns the map
        for t in targets:
            while t['_'] in ('ParenExpr',):
                t = t['X']
            base = t
            through_ref = False
            while base['_'] in ('IndexExpr', 'SelectorExpr', 'StarExpr', 'ParenExpr') and not (base['_'] == 'SelectorExpr' and base.get('sel') is None):
                xk = self.tt.kind(base['X']['t']) if base['X'].get('t') is not None else None
                if base['_'] == 'SelectorExpr':
                    acc_fields.add((base['X'].get('t'), base['Sel']['Name']))
                    if xk == 'ptr': through_ref = True
                if base['_'] == 'IndexExpr':
                    acc_fields.add(('elems', id(base)))
                    acc_calls.append(('elemwrite', base['X']))
                    bx = base['X']
                    while bx['_'] == 'ParenExpr': bx = bx['X']
                    if bx['_'] == 'SelectorExpr' and bx.get('sel') is not None and bx['sel'].get('kind') == 'field':
                        acc_fields.add((bx['X'].get('t'), bx['Sel']['Name'], 'elems'))      # the slice is held in a field: its array changes, its header does not
                    if xk in ('slice', 'ptr'): through_ref = True
                if base['_'] == 'StarExpr':
                    through_ref = True
                if through_ref:
                    break
                base = base['X']
            if not through_ref and base['_'] == 'Ident' and base.get('obj') and base['obj']['kind'] == 'Var':
                acc_vars.add(base['obj']['id'])
        if k == 'CallExpr':
            acc_calls.append(('call', node))
        for key, v in node.items():
            if key in ('obj', 'sel', 'implicit'):
                continue
            if isinstance(v, (dict, list)):
                self.assigned_in(v, acc_vars, acc_fields, acc_calls)

    def run_loop(self, st, s, kind):
        no = self.loop_id(s)
        spec = self.frame.loop_specs.get(str(no), {}) if no is not None else {}
        label = st.meta.pop('label', None)
        saved_names = dict(st.names)
        if kind == 'for' and s.get('Init'):
            self.stmt(st, s['Init'])
        if 'unroll' in spec or (not spec.get('invariant') and self.frame.contract and self.frame.contract.get('unroll')):
            n = int((spec.get('unroll') or self.frame.contract.get('unroll'))[0].text)
            self.unroll_loop(st, s, kind, n, label)
            st.names = saved_names
            return
        if not spec.get('invariant'):
            raise Unsupported('loop #%s @%s has no invariant' % (no, s.get('line')))
        if kind == 'range':
            self.range_setup(st, s)
        invs = spec['invariant']
        entry_old = st.entry
        def inv_obl(state, tag):
            env = SpecEnv(state, {}, entry_old)
            self.loop_hints(state, spec, tag)
            for i, cl in enumerate(invs):
                self.oblige(state, 'inv-%s#%s.%d' % (tag, no, i + 1), self.sev_bool(env, cl.expr), src=s.get('line'))
        inv_obl(st, 'init')
        cache_key = (no, tuple(self.trace))
        if cache_key in self.loop_cache:
            exits = self.loop_cache[cache_key]
        else:
            # havoc everything the body may assign
            vs, fs, calls = set(), set(), []
            self.assigned_in(s['Body'], vs, fs, calls)
            if kind == 'for' and s.get('Post'): self.assigned_in(s['Post'], vs, fs, calls)
            if kind == 'for' and s.get('Cond'): self.assigned_in(s['Cond'], vs, fs, calls)
            if kind == 'range':
                vs |= set(st.meta['range'][(s['line'], s['col'])]['mod'])
            selfvs = self.self_call_effects(calls)
            vs |= selfvs
            h = st.clone()
            h.meta['selfhavoc'] = frozenset(selfvs)
            self.havoc_loop_state(h, vs, fs, calls, spec, s)
            henv = SpecEnv(h, {}, entry_old)
            for cl in invs:
                h.assume(self.sev_bool(henv, cl.expr))
            self.loop_hints(h, spec, 'head')            # hints may rely on the invariant
            variant0 = None
            if spec.get('decreases'):
                variant0 = self.sev(henv, spec['decreases'][0].expr)
            exits = []
            def body(state):
                # guard
                if kind == 'for':
                    if s.get('Cond'):
                        c = self.ev(state, s['Cond'])
                        if not self.fork(state, c):
                            raise BreakEx('$guard')
                else:
                    if not self.range_guard(state, s):
                        raise BreakEx('$guard')
                try:
                    self.block(state, s['Body'].get('List'))
                except ContinueEx as c:
                    if c.label is not None and c.label != label:
                        raise
                if kind == 'for' and s.get('Post'):
                    self.stmt(state, s['Post'])
                if kind == 'range':
                    self.range_step(state, s)
                return 'back'
            for (how, state, info) in self.run_paths(h, body):
                if how == 'end':
                    # back edge
                    saved_trace = self.trace
                    self.trace = self.trace + ['L%s' % no, len(exits), id(state) % 1000003]
                    inv_obl(state, 'step')
                    if variant0 is not None:
                        v1 = self.sev(SpecEnv(state, {}, entry_old), spec['decreases'][0].expr)
                        self.oblige(state, 'variant#%s' % no, z3.And(variant0 >= 0, v1 < variant0), src=s.get('line'))
                    self.trace = saved_trace
                elif how == 'break':
                    if info in ('$guard', None, label):
                        exits.append(('fall', state))
                    else:
                        exits.append(('break', state, info))
                elif how == 'continue':
                    exits.append(('continue', state, info))
                elif how == 'return':
                    exits.append(('return', state, info))
                elif how == 'panic':
                    exits.append(('panic', state, info))
            self.loop_cache[cache_key] = exits
        if not exits:
            raise PathEnd()
        c = self.choose(len(exits)) if len(exits) > 1 else 0
        ex = exits[c]
        self.adopt(st, ex[1])
        if ex[0] == 'fall':
            st.names = dict(ex[1].names)
            self.loop_hints(st, spec, 'exit')
            st.names = saved_names
            return
        st.names = saved_names
        if ex[0] == 'return':
            st.names = dict(ex[1].names)       # the locals of the returning path stay nameable (return hints, postconditions)
        if ex[0] == 'break': raise BreakEx(ex[2])
        if ex[0] == 'continue': raise ContinueEx(ex[2])
        if ex[0] == 'return': raise ReturnEx(ex[2])
        if ex[0] == 'panic': raise PanicEx(ex[2])

    def adopt(self, st, other):
        o = other.clone()
        st.env, st.heap, st.ghost, st.pc, st.meta, st.defers = o.env, o.heap, o.ghost, o.pc, o.meta, o.defers
        st.guards = o.guards

    def loop_hints(self, st, spec, where):
        for cl in spec.get('hint', []):
            m = re.match(r'(\w+)\s*:\s*(.*)$', cl.text, re.S)
            if m and m.group(1) == where:
                env = SpecEnv(st, {}, st.entry)
                if where in ('step', 'exit'):
                    # a hint about ghost state that only some paths through the body set up is skipped on the others
                    env.strict_names = True
                    try:
                        self.run_hint(st, env, m.group(2), cl)
                    except Unsupported as ex:
                        if 'unknown name' not in str(ex):
                            raise
                else:
                    self.run_hint(st, env, m.group(2), cl)

    def havoc_loop_state(self, h, vs, fs, calls, spec, s):
        self.bump_top(h)              # iterations may have allocated
        for oid in vs:
            if oid in h.env and isinstance(oid, tuple) and isinstance(h.env[oid], z3.ExprRef) and z3.is_array(h.env[oid]):
                h.env[oid] = fresh('visited', h.env[oid].sort())
                continue
            if oid in h.env:
                tid = self.obj_type(oid, h.env[oid])
                if tid is None:
                    raise Unsupported('cannot havoc variable of unknown type')
                nv = self.lay.fresh(tid, 'lv%s' % (oid if isinstance(oid, int) else 'rng'))
                # a slice variable that is only ever re-sliced keeps its backing array (and arrays written
                # element-wise are havocked below through replace_arrays)
                old = h.env[oid]
                by_self_call = oid in h.meta.get('selfhavoc', ())      # assigned by a recursive call: anything may have happened to it
                if isinstance(old, SliceV) and isinstance(nv, SliceV) and not by_self_call and not self.slice_rebased(s, oid):
                    nv.arrs = old.arrs
                if isinstance(old, StrV) and not by_self_call and not self.slice_rebased(s, oid):
                    nv.arr = old.arr
                for w in self.lay.wf(nv, tid): h.assume(w)
                self.bound_value(h, nv, tid)
                h.env[oid] = nv
        whole = {(e[0], e[1]) for e in fs if len(e) == 2}
        for e in fs:
            t, fname = e[0], e[1]
            elems_only = len(e) == 3
            if elems_only and (t, fname) in whole:
                continue
            if t == 'elems':
                continue
            tid = t
            if tid is None: continue
            if self.tt.kind(tid) == 'ptr': tid = self.tt[tid]['e']
            tn = self.tt.name(tid)
            for f in self.tt.fields(tid):
                if f['n'] == fname:
                    for i, srt in enumerate(self.lay.sorts(f['t'])):
                        if elems_only and srt.kind() != z3.Z3_ARRAY_SORT:
                            continue               # offset, length, capacity, nil flag of the slice stay
                        h.heap[(tn, fname, i)] = fresh('hvH_%s' % fname, z3.ArraySort(I, srt))
                        h.meta['afacts'] = tuple(h.meta.get('afacts', ())) + tuple(self.bound_heap_comp(h, h.heap[(tn, fname, i)], tn, fname, i))
        for c in calls:
            if c[0] == 'elemwrite':
                try:
                    x = self.ev(h.clone(), c[1])
                except Exception:
                    x = None
                if isinstance(x, SliceV):
                    self.havoc_elems(h, x)
                elif isinstance(x, ArrayV) and c[1]['_'] == 'Ident':
                    oid = c[1]['obj']['id']
                    h.env[oid] = ArrayV([fresh('hv.arr', a.sort()) for a in x.arrs], x.n, x.etid)
        for cl in spec.get('assigns', []):
            for target in speclang.split_top(cl.text, ','):
                if target.strip():
                    self.havoc_target(h, SpecEnv(h, {}, h.entry), speclang.parse_expr(target.strip()))
        # ghost variables assigned by the contracts of the calls in the body, or by `after` / `oncall` clauses and
        # hints of inner loops of the function under verification that fire on them, are havocked as well
        gv = set()
        def ghost_targets(text):
            return set(re.findall(r'\bghost\s+(\w+)\s*=', text))
        fc = self.frame.contract if self.frame else None
        for c in calls:
            if c[0] != 'call':
                continue
            f = c[1]['Fun']
            while f['_'] == 'ParenExpr': f = f['X']
            key, _ = self.callee_key_static(f)
            nm = f['Sel']['Name'] if f['_'] == 'SelectorExpr' else f.get('Name')
            ct = None
            if key:
                for pref in ('', 'natives:', 'goroot:'):
                    ct = ct or self.contracts.get(pref + key) or self.externs.get(pref + key)
            if ct is not None:
                for cl in ct.get('ghost'):
                    gv |= ghost_targets('ghost ' + cl.text)
            if fc:
                for cl in fc.get('after'):
                    m = re.match(r'(\S+?)\s*:\s*(.*)$', cl.text, re.S)
                    if m and key and (key == m.group(1) or key.endswith('.' + m.group(1)) or key.endswith('/' + m.group(1))):
                        gv |= ghost_targets(m.group(2))
                for cl in fc.get('oncall'):
                    m = re.match(r'(\w+)\s*:\s*(.*)$', cl.text, re.S)
                    if m and (m.group(1) == nm or (key and re.split(r'[./]', key)[-1] == m.group(1))):
                        gv |= ghost_targets(m.group(2))
        own = self.loop_id(s)
        for no2, sp2 in self.inner_loop_specs(s):
            for cl in sp2.get('hint', []):
                gv |= ghost_targets(cl.text)
        for cl in spec.get('hint', []):
            m = re.match(r'(\w+)\s*:\s*(.*)$', cl.text, re.S)
            if m and m.group(1) not in ('init', 'head', 'exit'):
                gv |= ghost_targets(m.group(2))
        for name in sorted(gv):
            if ('ghostvar', name) in h.ghost:
                self.havoc_target(h, SpecEnv(h, {}, h.entry), ('id', name))
        # ghost heaps (`ghost g(x) = e`) written by `after` clauses that fire inside the body (append, calls, self calls)
        if fc:
            body_has_append = any(c[0] == 'call' and c[1]['Fun'].get('Name') == 'append' for c in calls)
            for cl in fc.get('after'):
                m = re.match(r'(\S+?)\s*:\s*(.*)$', cl.text, re.S)
                if not m: continue
                fires = (m.group(1) == 'append' and body_has_append) or bool(h.meta.get('selfhavoc')) or any(
                    c[0] == 'call' and (self.callee_key_static(c[1]['Fun'])[0] or '').endswith(m.group(1)) for c in calls)
                if fires:
                    for g in re.findall(r'\bghost\s+(\w+)\s*\(', m.group(2)):
                        self.ghost_read(h, g, z3.IntVal(0))
                        h.ghost[('gheap', g)] = fresh('hvG_' + g, h.ghost[('gheap', g)].sort())
        for c in calls:
            if c[0] == 'call':
                key, _ = self.callee_key_static(c[1]['Fun'])
                ct = self.contracts.get(key) or self.externs.get(key)
                if ct is not None and ct.get('assigns') and not any(x.text.strip() == 'nothing' for x in ct.get('assigns')):
                    if not spec.get('assigns'):
                        raise Unsupported('loop calls %s which assigns state: the loop needs an assigns clause' % key)

    def self_call_effects(self, calls):
        """a call of the function literal under verification through its own variable (`oncall f: self`) assigns the
        captured variables the literal's body assigns"""
        fc = self.frame.contract if self.frame else None
        if not fc:
            return set()
        selfnames = set()
        for cl in fc.get('oncall'):
            m = re.match(r'(\w+)\s*:\s*self\s*$', cl.text)
            if m: selfnames.add(m.group(1))
        if not selfnames:
            return set()
        hit = False
        for c in calls:
            if c[0] == 'call':
                f = c[1]['Fun']
                while f['_'] == 'ParenExpr': f = f['X']
                if f['_'] == 'Ident' and f.get('Name') in selfnames:
                    hit = True
        if not hit:
            return set()
        decl = self.frame.decl
        vs, fs, cs = set(), set(), []
        self.assigned_in(decl.get('Body'), vs, fs, cs)
        cap = {o['id'] for o in decl.get('captured', []) or []}
        return vs & cap

    def inner_loop_specs(self, s):
        out = []
        def walk(n):
            if isinstance(n, list):
                for x in n: walk(x)
            elif isinstance(n, dict):
                if n.get('_') in ('ForStmt', 'RangeStmt') and n is not s:
                    no = self.loop_id(n)
                    if no is not None and str(no) in self.frame.loop_specs:
                        out.append((no, self.frame.loop_specs[str(no)]))
                if n.get('_') == 'FuncLit':
                    return
                for k, v in n.items():
                    if k not in ('obj', 'sel') and isinstance(v, (dict, list)):
                        walk(v)
        walk(s.get('Body'))
        return out

    def field_reassigned(self, body, sel):
        """is the field named by the selector assigned as a whole (x.f = ...) somewhere in the body?"""
        name = sel['Sel']['Name']
        found = [False]
        def walk(n):
            if isinstance(n, list):
                for x in n: walk(x)
            elif isinstance(n, dict):
                if n.get('_') == 'AssignStmt':
                    for l in n['Lhs']:
                        while l['_'] == 'ParenExpr': l = l['X']
                        if l['_'] == 'SelectorExpr' and l.get('sel') is not None and l['Sel']['Name'] == name:
                            found[0] = True
                for k, v in n.items():
                    if k not in ('obj', 'sel', 'implicit') and isinstance(v, (dict, list)): walk(v)
        walk(body)
        return found[0]

    def slice_rebased(self, loopnode, oid):
        """does the loop assign the slice variable from anything but a re-slice of itself?"""
        found = [False]
        def walk(n):
            if isinstance(n, list):
                for x in n: walk(x)
            elif isinstance(n, dict):
                if n.get('_') == 'AssignStmt':
                    for l, r in zip(n['Lhs'], n['Rhs'] if len(n['Rhs']) == len(n['Lhs']) else [None] * len(n['Lhs'])):
                        if l['_'] == 'Ident' and l.get('obj', {}).get('id') == oid:
                            ok = False
                            if r is not None and r['_'] == 'SliceExpr':
                                b = r['X']
                                if b['_'] == 'Ident' and b.get('obj', {}).get('id') == oid:
                                    ok = True
                            if not ok:
                                found[0] = True
                for k, v in n.items():
                    if k not in ('obj', 'sel') and isinstance(v, (dict, list)):
                        walk(v)
        walk(loopnode.get('Body'))
        return found[0]

    def callee_key_static(self, f):
        while f['_'] == 'ParenExpr': f = f['X']
        if f['_'] == 'Ident':
            o = f.get('obj') or {}
            return (o.get('full'), None) if o.get('kind') == 'Func' else (None, None)
        if f['_'] == 'SelectorExpr':
            if f.get('sel'):
                return f['sel'].get('full'), None
            o = f['Sel'].get('obj') or {}
            return (o.get('full'), None) if o.get('kind') == 'Func' else (None, None)
        return None, None

    def obj_type(self, oid, val):
        t = self.frame.objtypes.get(oid)
        return t

    def unroll_loop(self, st, s, kind, n, label):
        if kind == 'range':
            self.range_setup(st, s)
        for i in range(n + 1):
            if kind == 'for':
                if s.get('Cond'):
                    c = self.ev(st, s['Cond'])
                    if not self.fork(st, c):
                        return
            else:
                if not self.range_guard(st, s):
                    return
            if i == n:
                # unwinding assertion: the loop must have exited by now
                self.oblige(st, 'unwind@%s' % s.get('line'), z3.BoolVal(False), src=s.get('line'))
                raise PathEnd()
            try:
                try:
                    self.block(st, s['Body'].get('List'))
                except ContinueEx as c:
                    if c.label is not None and c.label != label: raise
            except BreakEx as b:
                if b.label is not None and b.label != label: raise
                return
            if kind == 'for' and s.get('Post'):
                self.stmt(st, s['Post'])
            if kind == 'range':
                self.range_step(st, s)

    # range loops: desugared to an index loop over a snapshot of the operand
    def range_setup(self, st, s):
        x = self.ev(st, s['X'])
        key = (s['line'], s['col'])
        idx = fresh('ri')
        st.assume(idx == 0)
        mod = []
        for v in (s.get('Key'), s.get('Value')):
            if v is not None and v['_'] == 'Ident' and v['Name'] != '_':
                mod.append(v['obj']['id'])
                if s['Tok'] == ':=':
                    st.names[v['Name']] = v['obj']['id']
                    st.env[v['obj']['id']] = self.lay.zero(v['obj']['t'])
        rid = ('$range', key)
        if isinstance(x, MapV):
            # range over a map: an arbitrary enumeration of the keys present; the ghost set $visited<n> records the keys done
            st.env[rid] = z3.K(x.dom.sort().domain(), z3.BoolVal(False))
        else:
            st.env[rid] = z3.IntVal(0)
        st.meta = dict(st.meta)
        rng = dict(st.meta.get('range', {}))
        live = False
        if isinstance(x, SliceV):
            vs, fs, calls = set(), set(), []
            self.assigned_in(s['Body'], vs, fs, calls)
            writes = any(c[0] == 'elemwrite' for c in calls)
            callsassign = False
            for c in calls:
                if c[0] == 'call':
                    k2, _ = self.callee_key_static(c[1]['Fun'])
                    ct = (self.contracts.get(k2) or self.externs.get(k2)) if k2 else None
                    if ct is not None and ct.get('assigns') and not any(a.text.strip() == 'nothing' for a in ct.get('assigns')):
                        callsassign = True
            if writes or callsassign:
                live = True
                xn = s['X']
                while xn['_'] == 'ParenExpr': xn = xn['X']
                if xn['_'] == 'Ident':
                    if xn.get('obj', {}).get('id') in vs:
                        raise Unsupported('range over a slice variable that the body reassigns while it writes elements @%s' % s.get('line'))
                elif xn['_'] == 'SelectorExpr' and xn.get('sel') is not None:
                    if self.field_reassigned(s['Body'], xn):
                        raise Unsupported('range over a slice field that the body reassigns while it writes elements @%s' % s.get('line'))
                elif xn['_'] not in ('CallExpr',):
                    raise Unsupported('range over %s with element writes in the body @%s' % (xn['_'], s.get('line')))
                else:
                    live = False        # a call result: nothing else names that array
        rng[key] = {'x': x, 'mod': mod + [rid], 'live': live}
        st.meta['range'] = rng
        self.frame.objtypes[rid] = self.frame.int_tid
        st.names['$i%s' % (self.loop_id(s),)] = rid
        st.names['$visited%s' % (self.loop_id(s),)] = rid

    def range_guard(self, st, s):
        key = (s['line'], s['col'])
        r = st.meta['range'][key]
        x = r['x']
        rid = ('$range', key)
        i = st.env[rid]
        if isinstance(x, (SliceV,)):
            n = x.len
        elif isinstance(x, ArrayV):
            n = z3.IntVal(x.n)
        elif isinstance(x, z3.ExprRef) and x.sort() == I:
            n = x
        elif isinstance(x, StrV):
            raise Unsupported('range over string (runes)')
        elif isinstance(x, MapV):
            visited = i
            kq = fresh('mk', x.dom.sort().domain())
            more = fresh('more', B)
            if not self.fork(st, more):
                qk = fresh('q!k', x.dom.sort().domain())
                st.assume(z3.ForAll([qk], z3.Implies(z3.Select(x.dom, qk), z3.Select(visited, qk))))
                return False
            st.assume(z3.And(z3.Select(x.dom, kq), z3.Not(z3.Select(visited, kq))))
            st.meta['mapkey%s' % (key,)] = kq
            kn, vn = s.get('Key'), s.get('Value')
            if kn is not None and kn['_'] == 'Ident' and kn['Name'] != '_':
                st.env[kn['obj']['id']] = self.key_value(st, kq, x.ktid)
            if vn is not None and vn['_'] == 'Ident' and vn['Name'] != '_':
                st.env[vn['obj']['id']] = self.lay.unflatten(iter([z3.Select(a, kq) for a in x.vals]), x.vtid)
            return True
        else:
            raise Unsupported('range over %r' % (x,))
        if not self.fork(st, i < n):
            return False
        st.assume(i >= 0)
        kn, vn = s.get('Key'), s.get('Value')
        if kn is not None and kn['_'] == 'Ident' and kn['Name'] != '_':
            st.env[kn['obj']['id']] = i
        elif kn is not None and kn['_'] != 'Ident':
            self.assign_to(st, kn, i)
        if vn is not None and not (vn['_'] == 'Ident' and vn['Name'] == '_'):
            if isinstance(x, SliceV):
                arrs = x.arrs
                if r.get('live'):
                    # Go evaluates the slice header once but reads the elements from the live array: the body writes
                    # elements, so the operand is looked up again (its variable / field is not reassigned in the body)
                    cur = self.ev(st, s['X'])
                    if not isinstance(cur, SliceV):
                        raise Unsupported('range operand changed kind')
                    arrs = cur.arrs
                v = self.lay.unflatten(iter([z3.Select(a, x.off + i) for a in arrs]), x.etid)
            else:
                v = self.lay.unflatten(iter([z3.Select(a, i) for a in x.arrs]), x.etid)
            self.elem_facts(st, v, x.etid)
            if vn['_'] == 'Ident':
                st.env[vn['obj']['id']] = v
            else:
                self.assign_to(st, vn, v)
        return True

    def key_value(self, st, kq, ktid):
        """a Go value of the key type whose map identity is kq"""
        if self.tt.is_string(ktid):
            from .golib import str_arr_of, str_len_of
            v = StrV(str_arr_of(kq), z3.IntVal(0), str_len_of(kq))
            st.assume(self.str_ident(v.arr, v.off, v.len) == kq)
            st.assume(v.len >= 0)
            return v
        if self.tt.kind(ktid) == 'ptr':
            return PtrV(kq, self.tt[ktid]['e'])
        if self.tt.kind(ktid) in ('iface', 'typeparam'):
            return IfaceV(kq, fresh('tag'), ktid)
        return kq

    def range_step(self, st, s):
        rid = ('$range', (s['line'], s['col']))
        v = st.env[rid]
        if z3.is_array(v):
            kq = st.meta.get('mapkey%s' % ((s['line'], s['col']),))
            st.env[rid] = z3.Store(v, kq, z3.BoolVal(True))
            return
        st.env[rid] = v + 1
