# Function-level verification driver for Go functions under contract.
import z3, json, os, subprocess, tempfile, re
from .values import *
from .gostate import *
from .goexec import GoExec, Frame, PanicEx, ReturnEx, PathEnd, simp_bool
from .gospec import SpecMixin, SpecEnv
from .gocalls import CallsMixin
from .gostmts import StmtsMixin
from .golib import LibMixin
from .smt import Obligation
from . import speclang

class GoVerifier(GoExec, SpecMixin, CallsMixin, StmtsMixin, LibMixin):
    def number_loops(self, decl):
        loops, objtypes = {}, {}
        if not hasattr(self, 'global_objs'):
            self.global_objs = {}
        cnt = [0]
        def walk(n):
            if isinstance(n, list):
                for x in n: walk(x)
            elif isinstance(n, dict):
                if n.get('_') in ('ForStmt', 'RangeStmt'):
                    cnt[0] += 1
                    loops[(n['line'], n['col'])] = cnt[0]
                if n.get('_') == 'Ident' and isinstance(n.get('obj'), dict) and n['obj'].get('kind') == 'Var' and 't' in n['obj']:
                    objtypes[n['obj']['id']] = n['obj']['t']
                    if n['obj'].get('global'):
                        self.global_objs[n['obj'].get('pkg', '') + '.' + n['obj']['name']] = n['obj']
                for k, v in n.items():
                    if k in ('obj', 'sel', 'implicit'): continue
                    if isinstance(v, (dict, list)): walk(v)
        walk(decl)
        return loops, objtypes

    def int_type_id(self):
        for i, t in enumerate(self.tt.t):
            if t.get('k') == 'basic' and t.get('b') == 'int' and not t.get('named'):
                return i
        return None

    def verify_function(self, key):
        if not getattr(self, '_globals_scanned', False):
            self._globals_scanned = True
            for k, d in self.funcs.items():
                self.number_loops(d)
        decl = self.funcs.get(key)
        c = self.contracts.get(key)
        if decl is None and '#lit' in key:
            decl = self.lit_region(key)
        if decl is None:
            raise Unsupported('function %s not found in /repo (contract does not bind)' % key)
        reset_fresh()        # obligations of one function do not depend on what was verified before it
        fr = Frame(key, decl, c)
        fr.loops, fr.objtypes = self.number_loops(decl)
        for ik in (self.frame_inlines_of(c) if c else []):
            if ik in self.funcs:
                l2, o2 = self.number_loops(self.funcs[ik])
                fr.objtypes.update(o2)
        fr.int_tid = self.int_type_id()
        self.frame = fr
        self.loop_cache = {}
        mode = c.get('mode')[0].text.strip() if c and c.get('mode') else self.mode
        saved_mode, saved_lay = self.mode, self.lay
        self.mode = mode
        self.lay = Layout(self.tt, mode)
        try:
            return self._verify(key, decl, c, fr)
        finally:
            self.mode, self.lay = saved_mode, saved_lay

    def lit_region(self, key):
        """`<func>#lit<n>`: the n-th function literal of <func> (source order) as a unit of verification; the variables it
        captures from the enclosing function become symbolic inputs that the contract can name"""
        base, n = key.split('#lit')
        outer = self.funcs.get(base)
        if outer is None:
            return None
        lits = []
        def walk(x):
            if isinstance(x, list):
                for y in x: walk(y)
            elif isinstance(x, dict):
                if x.get('_') == 'FuncLit': lits.append(x)
                for k, y in x.items():
                    if k not in ('obj', 'sel', 'implicit') and isinstance(y, (dict, list)): walk(y)
        walk(outer.get('Body'))
        if int(n) < 1 or int(n) > len(lits):
            return None
        lit = lits[int(n) - 1]
        def varobjs(x, acc, skip=None):
            if x is skip: return
            if isinstance(x, list):
                for y in x: varobjs(y, acc, skip)
            elif isinstance(x, dict):
                if x.get('_') == 'Ident' and isinstance(x.get('obj'), dict) and x['obj'].get('kind') == 'Var' and not x['obj'].get('global') and not x['obj'].get('field'):
                    acc[x['obj']['id']] = x['obj']
                for k, y in x.items():
                    if k not in ('obj', 'sel', 'implicit') and isinstance(y, (dict, list)): varobjs(y, acc, skip)
        inner, outside = {}, {}
        varobjs(lit['Body'], inner)
        varobjs(outer, outside, skip=lit)
        captured = [o for i, o in inner.items() if i in outside]
        return {'_': 'FuncDecl', 'Name': {'Name': key.split('.')[-1]}, 'Type': lit['Type'], 'Body': lit['Body'], 'file': outer.get('file'), 'pkg': outer.get('pkg'),
                'line': lit.get('line'), 'captured': captured}

    def frame_inlines_of(self, c):
        s = set()
        for cl in c.get('inline'):
            s |= set(cl.text.replace(',', ' ').split())
        return s

    def _verify(self, key, decl, c, fr):
        st = State()
        binds = {}
        if decl.get('Recv'):
            fld = decl['Recv']['List'][0]
            if fld.get('Names'):
                n = fld['Names'][0]
                v = self.lay.fresh(n['obj']['t'], n['Name'])
                st.env[n['obj']['id']] = v; st.names[n['Name']] = n['obj']['id']
                st.pc += self.lay.wf(v, n['obj']['t'])
                if isinstance(v, PtrV) and not (c and c.get('recv_may_be_nil')):
                    st.pc.append(v.ref > 0)      # a method body runs with a receiver; nil receivers are the caller's obligation
        for fld in (decl['Type'].get('Params') or {}).get('List', []) or []:
            for n in fld.get('Names') or []:
                if n['Name'] == '_': continue
                v = self.lay.fresh(n['obj']['t'], n['Name'])
                st.env[n['obj']['id']] = v; st.names[n['Name']] = n['obj']['id']
                st.pc += self.lay.wf(v, n['obj']['t'])
        for o in decl.get('captured', []) or []:        # captured variables of a function-literal region
            cv = self.lay.fresh(o['t'], o['name'])
            st.env[o['id']] = cv; st.names[o['name']] = o['id']
            st.pc += self.lay.wf(cv, o['t'])
        rnames = []
        i = 0
        for fld in (decl['Type'].get('Results') or {}).get('List', []) or []:
            for n in fld.get('Names') or [None]:
                if n is not None:
                    st.env[n['obj']['id']] = self.lay.zero(n['obj']['t']); st.names[n['Name']] = n['obj']['id']
                    st.results[n['Name']] = n['obj']['id']
                    rnames.append(n['Name'])
                else:
                    rnames.append('result' if i == 0 else 'result%d' % i)
                i += 1
        if c and c.get('results'):
            rnames = c.get('results')[0].text.replace(',', ' ').split()
        # heap well-formedness of the receiver's / pointer parameters' fields
        for oid, v in list(st.env.items()):
            if isinstance(v, PtrV) and self.tt.kind(v.etid) == 'struct':
                sv = self.load_ptr(st, v)
                st.pc += self.lay.wf(sv, v.etid)
        for oid, pv in list(st.env.items()):              # everything the caller hands over exists already
            ot = fr.objtypes.get(oid)
            if ot is not None:
                self.bound_value(st, pv, ot)
        if c:
            for cl in c.get('ghost'):
                self.ghost_assign(st, SpecEnv(st, {}, None), cl)
            for cl in c.get('initval'):
                for gk in cl.text.replace(',', ' ').split():
                    g = self.dump.get('globals', {}).get(gk)
                    if g is None or 'init' not in g:
                        raise Unsupported('initval: no initializer for %s' % gk)
                    st.ghost[('global', gk.split(':', 1)[-1])] = self.ev(st, g['init'])
                    self.assumed.add('package variable %s holds its initial value' % gk)
        entry = st.clone()
        st.entry = entry
        entry.entry = entry
        try:
            from .goreplay import GoReplayer
            params = []
            if decl.get('Recv') and decl['Recv']['List'][0].get('Names'):
                n = decl['Recv']['List'][0]['Names'][0]
                params.append((n['Name'], n['obj']['t'], entry.env[n['obj']['id']], True))
            for fld in (decl['Type'].get('Params') or {}).get('List', []) or []:
                for n in fld.get('Names') or []:
                    if n['Name'] != '_':
                        params.append((n['Name'], n['obj']['t'], entry.env[n['obj']['id']], False))
            rtids = []
            for fld in (decl['Type'].get('Results') or {}).get('List', []) or []:
                for n in fld.get('Names') or [None]:
                    rtids.append(fld['Type']['t'])
            if not key.startswith(('natives:', 'goroot:')):
                fr.replayer = GoReplayer(self, fr, entry, params, rnames, rtids)
            elif key.startswith('natives:'):
                from .nativesreplay import NativesReplayer
                pk = key.split(':', 1)[1]
                slash = pk.rfind('/'); dot = pk.find('.', slash + 1)
                if '.' not in pk[dot + 1:]:        # plain functions only
                    fr.replayer = NativesReplayer(self, fr, entry, params, rnames, rtids, pk[:dot], pk[dot + 1:])
        except Exception:
            fr.replayer = None
        if c:
            env = SpecEnv(st, {}, entry)
            for cl in c.get('requires'):
                st.pc.append(self.sev_bool(env, cl.expr))
        pre_hyps = self.base_hyps() + list(st.pc)
        self.covers.append(Obligation(key + '/cover-pre', [h for h in pre_hyps if not _has_quant(h)], None, kind='cover', func=key))
        body = decl.get('Body')
        if body is None:
            raise Unsupported('function without body')
        def run(state):
            try:
                self.block(state, body.get('List'))
            except ReturnEx as r:
                if state.results and state.defers:
                    # named results: the return operands are stored first, deferred calls may then change them
                    for oid, val in zip(state.results.values(), r.vals):
                        self.write_var(state, oid, val)
                    self.run_defers(state)
                    raise ReturnEx([self.read_var(state, oid) for oid in state.results.values()])
                self.run_defers(state)
                raise
            except PanicEx:
                self.run_defers(state)
                raise
            self.run_defers(state)
            return None
        self.rtype_stack = [[fld['Type'].get('t') for fld in (decl['Type'].get('Results') or {}).get('List', []) or [] for _ in (fld.get('Names') or [None])]]
        exits = self.run_paths(st, run)
        n_ret = n_pan = 0
        for (how, state, info) in exits:
            self.trace = ['exit', n_ret + n_pan]
            if how in ('end', 'return'):
                n_ret += 1
                vals = info if how == 'return' else [self.read_var(state, o) for o in state.results.values()]
                self.check_return(state, entry, c, rnames, vals, n_ret)
            elif how == 'panic':
                n_pan += 1
                self.check_panic(state, entry, c, info, n_pan)
            else:
                raise Unsupported('stray %s at function level' % how)
        self.trace = []
        fr.n_paths = len(exits)
        return fr

    def load_axioms(self):
        st = State()
        for name, cl in self.spec.axioms:
            self.axioms.append(self.sev_bool(SpecEnv(st, {}, None), cl.expr))

    def spec_fresh(self, ty, name, st):
        ty = ty.strip()
        if ty in ('[]byte',):
            a = fresh(name + '.arr', ArrII); o = fresh(name + '.off'); n = fresh(name + '.len')
            v = SliceV([a], o, n, n, None, z3.BoolVal(False))
            k = fresh('k!wf')
            st.pc += [o >= 0, n >= 0, z3.ForAll([k], z3.And(z3.Select(a, k) >= 0, z3.Select(a, k) <= 255))]
            return v
        if ty == 'string':
            a = fresh(name + '.arr', ArrII); o = fresh(name + '.off'); n = fresh(name + '.len')
            k = fresh('k!wf')
            st.pc += [o >= 0, n >= 0, z3.ForAll([k], z3.And(z3.Select(a, k) >= 0, z3.Select(a, k) <= 255))]
            return StrV(a, o, n)
        if ty == 'seq':
            self.use_seq = True
            return SeqV(fresh(name, ByteSeq))
        if ty == 'bool':
            return fresh(name, B)
        if ty == 'byte':
            v = fresh(name); st.pc += [v >= 0, v <= 255]; return v
        return fresh(name)

    def verify_lemma(self, name):
        """Lemmas are proved by the same engine.  `induct b` = induction on len(b): the lemma instantiated at b[:len(b)-1]
        is available as hypothesis (well-founded: the length decreases and is >= 0)."""
        lem = self.spec.lemmas[name]
        reset_fresh()
        self.interpret_prod = bool(lem.get('interpret'))
        fr = Frame('lemma ' + name, None, lem)
        self.frame = fr
        st = State()
        params = speclang.parse_params(lem.header)
        binds = {pn: self.spec_fresh(pt, pn, st) for pn, pt in params}
        env = SpecEnv(st, binds, None)
        for r in lem.get('requires'):
            st.pc.append(self.sev_bool(env, r.expr))
        for ind in lem.get('induct'):
            pn = ind.text.strip()
            b = binds[pn]
            small = SliceV(b.arrs, b.off, b.len - 1, b.len - 1, b.etid, b.isnil) if isinstance(b, SliceV) else StrV(b.arr, b.off, b.len - 1)
            b2 = dict(binds); b2[pn] = small
            env2 = SpecEnv(st, b2, None)
            pre = [self.sev_bool(env2, r.expr) for r in lem.get('requires')]
            post = [self.sev_bool(env2, e.expr) for e in lem.get('ensures')]
            st.pc.append(z3.Implies(b.len > 0, z3.Implies(z3.And(pre) if pre else z3.BoolVal(True), z3.And(post))))
            self.use_seq = True
            st.pc.append(z3.Implies(b.len > 0, split_fact(b.arr, b.off, b.off + b.len - 1, b.off + b.len)))
            st.pc += sl_facts(b.arr, b.off + b.len - 1, b.off + b.len) + sl_facts(b.arr, b.off, b.off + b.len) + sl_facts(b.arr, b.off, b.off + b.len - 1)
        for h in lem.get('hint'):
            self.run_hint(st, env, h.text, h)
        for i, e in enumerate(lem.get('ensures')):
            self.oblige(st, 'lemma-post#%d' % (i + 1), self.sev_bool(env, e.expr), src=e.line)
        self.interpret_prod = False
        return fr

    def read_var(self, st, oid):
        bx = st.meta.get('boxed')
        if bx and oid in bx:
            return self.load_ptr(st, bx[oid])
        return st.env[oid]

    def write_var(self, st, oid, val):
        bx = st.meta.get('boxed')
        if bx and oid in bx:
            self.store_ptr(st, bx[oid], val)
        else:
            st.env[oid] = val

    def run_defers(self, state):
        """deferred calls run LIFO at every exit (arguments are evaluated here, not at the defer statement: sound only for
        defers whose operands are not reassigned, which the subset requires)"""
        ds, state.defers = state.defers, []
        for call in reversed(ds):
            self.ev(state, call)

    def check_return(self, state, entry, c, rnames, vals, n):
        if c is None:
            return
        binds = {}
        for nme, v in zip(rnames, vals or []):
            binds[nme] = v
        if vals and len(vals) == 1:
            binds['result'] = vals[0]
        env = SpecEnv(state, binds, entry)
        env.binds_old = {}
        for cl in c.get('hint'):
            m = re.match(r'(\w+)\s*:\s*(.*)$', cl.text, re.S)
            if m and m.group(1) == 'return':
                try:
                    env.strict_names = True
                    self.run_hint(state, env, m.group(2), cl)
                except Unsupported as ex:
                    if 'unknown name' not in str(ex):
                        raise               # (a hint about a local that does not exist on this return path is skipped)
                finally:
                    env.strict_names = False
        for i, cl in enumerate(c.get('ensures')):
            self.oblige(state, 'post#%d' % (i + 1), self.sev_bool(env, cl.expr), src=cl.line)
        pcs = c.get('panics_if')
        if pcs:
            eenv = SpecEnv(entry, {}, entry)
            cond = z3.Or([self.sev_bool(eenv, cl.expr) for cl in pcs])
            self.oblige(state, 'returns-only-if-not-panics_if', z3.Not(cond))

    def check_panic(self, state, entry, c, info, n):
        pcs = (c.get('panics_if') + c.get('panics_only_if')) if c else []
        eenv = SpecEnv(entry, {}, entry)
        if pcs:
            cond = z3.Or([self.sev_bool(eenv, cl.expr) for cl in pcs])
            self.oblige(state, 'panic-allowed(%s)' % info, cond)
        else:
            self.oblige(state, 'no-panic(%s)' % info, z3.BoolVal(False))
        if c:
            env = SpecEnv(state, {}, entry)
            for i, cl in enumerate(c.get('panic_ensures')):
                self.oblige(state, 'panic-post#%d(%s)' % (i + 1, info), self.sev_bool(env, cl.expr), src=cl.line)

def _lemma_methods():
    pass

def _has_quant(e):
    seen = set()
    def go(x):
        if x.get_id() in seen: return False
        seen.add(x.get_id())
        if z3.is_quantifier(x): return True
        return any(go(ch) for ch in x.children())
    return go(e)
