# Per-property driver: collects the contracts tagged with the property, extracts the functions from
# /repo's working tree, generates and discharges the obligations, replays counterexamples, writes evidence.
import os, sys, json, time, glob, subprocess, tempfile, re, traceback, shutil
import z3
from . import speclang
from .smt import Portfolio, Obligation
from .gostate import Unsupported

ROOT = os.path.dirname(os.path.dirname(os.path.dirname(os.path.abspath(__file__))))
REPO = os.environ.get('VERIF_REPO', '/repo')
SPECDIR = os.path.join(REPO, 'internal', 'verifspec')
ENV = dict(os.environ, GOFLAGS='-mod=mod', GOPROXY='off', GOSUMDB='off', GOTOOLCHAIN='local')

DROPPED = [
    'logging calls (logrus / log.Print*) are skipped (assumed to have no effect on program state)',
    'the text of fmt.Errorf/Sprintf messages is an opaque value; only nil/non-nil of errors is tracked',
    'calls into the standard library / third-party modules use assumed contracts (`extern` clauses, listed under assumed_contracts)',
    'goroutines, channels, select, recover, unsafe, reflection: not supported (functions using them are out of reach)',
    'append: result shares the argument\'s array when capacity suffices, otherwise a fresh array with unspecified larger capacity',
    'termination is proved only where a `decreases` clause is given; elsewhere partial correctness',
    'slice aliasing is tracked syntactically: two slice values alias when they were derived from the same array term',
]

def pkg_of_key(key):
    if key.startswith('natives:') or key.startswith('goroot:'):
        k = key.split(':', 1)[1]
    else:
        k = key
    slash = k.rfind('/')
    dot = k.find('.', slash + 1)
    return k[:dot]

def load_specs():
    files = sorted(glob.glob(os.path.join(SPECDIR, '*.go')))
    return speclang.load_spec_files(files), files

def run_astdump(pkgs, funcs, natives=(), globals_=(), sites=False):
    binp = os.path.join(ROOT, 'bin', 'astdump')
    if not os.path.exists(binp):
        raise RuntimeError('bin/astdump missing: run setup_cmd')
    with tempfile.TemporaryDirectory(prefix='gvc-dump-') as td:
        out = os.path.join(td, 'dump.json')
        fl = os.path.join(td, 'funcs.txt')
        with open(fl, 'w') as f:
            f.write('\n'.join(funcs))
        cmd = [binp, '-dir', REPO, '-out', out, '-funcs', '@' + fl]
        if pkgs: cmd += ['-pkgs', ','.join('./' + p if not p.startswith('.') else p for p in pkgs)]
        if natives: cmd += ['-natives', ','.join(natives)]
        if globals_: cmd += ['-globals', ','.join(globals_)]
        if sites: cmd += ['-sites']
        p = subprocess.run(cmd, env=ENV, stdout=subprocess.PIPE, stderr=subprocess.PIPE, text=True)
        if p.returncode != 0:
            raise RuntimeError('astdump failed: ' + p.stderr[-2000:])
        with open(out) as f:
            return json.load(f)

class Report:
    def __init__(self, pid, tier, seed):
        self.pid, self.tier, self.seed = pid, tier, seed
        self.t0 = time.time()
        self.obls = []
        self.functions = []
        self.undecided = []       # (function, reason)
        self.assumed = set()
        self.inlined = set()
        self.lemmas = set()
        self.notes = []
        self.bounded = []
        self.violations = []      # (obligation, replay path, tag)
        self.known = []
        self.extra_trusted = []
        self.solver_seconds = 0.0
        self.covers = []
        self.paths = {}
        self.extra = {}

def referenced_contract_pkgs(spec, pkgs):
    """packages (transitively) imported by `pkgs` that contain functions under contract"""
    import subprocess, json
    have = {pkg_of_key(c.key) for c in spec.contracts if c.kind == 'func' and not c.key.startswith(('natives:', 'goroot:'))}
    if not (have - set(pkgs)):
        return set()
    mod = 'github.com/gopherjs/gopherjs/'
    try:
        out = subprocess.run(['go', 'list', '-deps', '-f', '{{.ImportPath}}'] + ['./' + p for p in pkgs], cwd=REPO, env=ENV,
                             stdout=subprocess.PIPE, stderr=subprocess.DEVNULL, text=True, timeout=120).stdout.split()
    except Exception:
        return set()
    deps = {d[len(mod):] for d in out if d.startswith(mod)}
    return (have & deps) - set(pkgs)

def run_go_functions(rep, spec, contracts, word=64, natives=(), extra_pkgs=(), verbose=False):
    from .goverify import GoVerifier
    keys = [c.key.split('#lit')[0] for c in contracts]
    inl = set()
    for c in contracts:
        for cl in c.get('inline'):
            inl |= set(cl.text.replace(',', ' ').split())
    pkgs = sorted({pkg_of_key(k) for k in list(keys) + list(inl) if not k.startswith(('natives:', 'goroot:'))} | set(extra_pkgs))
    natives = sorted(set(natives) | {pkg_of_key(k) for k in list(keys) + list(inl) if k.startswith(('natives:', 'goroot:'))})
    # functions under contract in other packages may be called by the ones checked here: their declarations (parameter
    # names for the contract) are needed too
    called = referenced_contract_pkgs(spec, pkgs)
    pkgs = sorted(set(pkgs) | called)
    allkeys = {c.key.split('#lit')[0] for c in spec.contracts if c.kind == 'func' and (pkg_of_key(c.key) in pkgs if not c.key.startswith(('natives:', 'goroot:')) else pkg_of_key(c.key) in natives)}
    gl = set()
    for c in contracts:
        for cl in c.get('initval'):
            gl |= set(cl.text.replace(',', ' ').split())
    dump = run_astdump(pkgs, sorted(set(keys) | inl | allkeys), natives=natives, globals_=sorted(gl))
    for e in dump.get('errors') or []:
        rep.notes.append('type-check: ' + e)
    out = []
    proved_lemmas = set()
    auto = set()
    queue = list(contracts)
    retries = {}
    while queue:
        c = queue.pop(0)
        w = int(c.get('word')[0].text) if c.get('word') else word
        v = GoVerifier(dump, spec, word=w)
        v.auto_inline = set(auto)
        try:
            v.load_axioms()
            try:
                fr = v.verify_function(c.key)
            except Unsupported as ex:
                mk = getattr(ex, 'missing_callee', None)
                # a repository function called without a contract: fetch its body and verify it inline (bounded retries)
                if mk and not mk.startswith(('natives:', 'goroot:')) and retries.get(c.key, 0) < 6 \
                   and os.path.isdir(os.path.join(REPO, pkg_of_key(mk))) and mk not in auto:
                    retries[c.key] = retries.get(c.key, 0) + 1
                    auto.add(mk)
                    pkgs = sorted(set(pkgs) | {pkg_of_key(mk)})
                    dump = run_astdump(pkgs, sorted(set(keys) | inl | allkeys | auto), natives=natives, globals_=sorted(gl))
                    if mk in dump.get('funcs', {}):
                        queue.insert(0, c)
                        continue
                raise
            for ln in sorted(getattr(v, 'used_lemmas', set()) - proved_lemmas):
                proved_lemmas.add(ln)
                if getattr(spec.lemmas[ln], 'is_axiom', False):
                    rep.assumed.add('definition ' + ln)
                else:
                    v.verify_lemma(ln)
            rep.functions.append(c.key)
            rep.paths[c.key] = fr.n_paths
            out += v.obls
            rep.covers += v.covers
            rep.assumed |= v.assumed
            rep.inlined |= v.inlined
            rep.lemmas |= getattr(v, 'used_lemmas', set())
        except (Unsupported, speclang.SpecError, KeyError, RecursionError, z3.Z3Exception, AttributeError, TypeError, IndexError) as ex:
            if verbose:
                traceback.print_exc()
            rep.undecided.append((c.key, '%s: %s' % (type(ex).__name__, ex)))
    return out

PRELUDE_FILES = ['prelude.js', 'numeric.js', 'types.js', 'goroutines.js', 'jsmapping.js']

def run_js_functions(rep, spec, contracts, verbose=False):
    from .jsexec import JSExec, run_jsdump
    names = list(PRELUDE_FILES)
    for c in contracts:                    # (the engine self-test corpus brings its own file)
        fn = c.key.split()[0] if ' ' in c.key else None
        if fn and fn.endswith('.js') and fn not in names:
            names.append(fn)
    files = [os.path.join(REPO, 'compiler', 'prelude', f) for f in names if os.path.exists(os.path.join(REPO, 'compiler', 'prelude', f))]
    dump = run_jsdump(files)
    out = []
    proved_lemmas = set()
    for c in contracts:
        v = JSExec(dump, spec)
        try:
            v.load_axioms()
            fr = v.verify_js(c)
            for ln in sorted(getattr(v, 'used_lemmas', set()) - proved_lemmas):
                proved_lemmas.add(ln)
                if getattr(spec.lemmas[ln], 'is_axiom', False):
                    rep.assumed.add('definition ' + ln)
                else:
                    v.verify_lemma(ln)
            rep.functions.append('js ' + c.key)
            rep.paths['js ' + c.key] = fr.n_paths
            out += v.obls
            rep.assumed |= v.assumed
            rep.lemmas |= getattr(v, 'used_lemmas', set())
        except (Unsupported, speclang.SpecError, KeyError, RecursionError, z3.Z3Exception, AttributeError, TypeError, IndexError) as ex:
            if verbose:
                traceback.print_exc()
            rep.undecided.append(('js ' + c.key, '%s: %s' % (type(ex).__name__, ex)))
    return out

def vacuity_guard(rep, obls):
    """A contradictory hypothesis set (a wrong assumed contract, a contradictory requires, an invariant that excludes every
    state) discharges everything.  For every function the return paths, and for every loop the back-edge paths, are
    grouped; a group in which NO member has satisfiable hypotheses makes the function undecided (reported, not counted)."""
    import z3
    from .smt import _has_q
    groups = {}
    for o in obls:
        if o.kind != 'proof' or not o.hyps:
            continue
        m = re.search(r'/(post#|inv-step#(\d+)\.|panic-post#|throws#)', o.name)
        if not m:
            if o.name.startswith('pattern '):       # an emitted-code pattern: all its obligations form one group
                groups.setdefault((o.name.split('/')[0], 'the end of the emitted function'), []).append(o)
            continue
        g = 'the return' if m.group(1).startswith(('post', 'panic', 'throws')) else 'the back edge of loop %s' % m.group(2)
        groups.setdefault((o.func or o.name.split('/')[0], g), []).append(o)
    # The probes run in solver processes with hard time limits (an in-process call once ignored its soft timeout for five
    # minutes): first the quantifier-free hypotheses (2 s), then all of them (1 s).  Only `unsat` makes a path infeasible; a
    # probe that runs out of time counts as feasible (the guard then says nothing about that path, it raises no alarm).
    import tempfile, shutil, hashlib
    from concurrent.futures import ThreadPoolExecutor
    from .smt import run_solver, Obligation
    wd = tempfile.mkdtemp(prefix='gvc-vac-')
    memo = {}
    def texts(o):
        k = tuple(h.get_id() for h in o.hyps)
        if k in memo:
            return k, None
        memo[k] = None
        g = Obligation('vac', [h for h in o.hyps if not _has_q(h)], None, 'cover').to_smt2(want_model=False)
        f = Obligation('vac', list(o.hyps), None, 'cover').to_smt2(want_model=False) if any(_has_q(h) for h in o.hyps) else None
        return k, (g, f)
    def probe(job):
        k, (g, f) = job
        base = os.path.join(wd, hashlib.sha1(repr(k).encode()).hexdigest()[:16])
        with open(base + '-g.smt2', 'w') as fh: fh.write(g)
        ans, _, _ = run_solver('z3-new', base + '-g.smt2', 2)
        if ans != 'unsat' and f is not None:
            with open(base + '-f.smt2', 'w') as fh: fh.write(f)
            ans, _, _ = run_solver('z3-new', base + '-f.smt2', 1)
        return k, ans != 'unsat'
    def feasible(o):
        return memo.get(tuple(h.get_id() for h in o.hyps), True) is not False
    # rounds: one member per group whose members so far were all infeasible (most groups are settled by their first member)
    try:
        pending = {gk: list(members) for gk, members in groups.items()}
        while pending:
            jobs = []
            for gk, members in pending.items():
                k, t = texts(members[0])          # (z3 term export is not thread safe: done here, serially)
                if t is not None: jobs.append((k, t))
            with ThreadPoolExecutor(max_workers=min(16, os.cpu_count() or 4)) as ex:
                for k, ok in ex.map(probe, jobs):
                    memo[k] = ok
            nxt = {}
            for gk, members in pending.items():
                if not feasible(members[0]) and len(members) > 1:
                    nxt[gk] = members[1:]
            pending = nxt
    finally:
        shutil.rmtree(wd, ignore_errors=True)
    bad = []
    for (f, g), members in groups.items():
        if not any(feasible(o) for o in members):
            bad.append((f, g))
    for f, g in bad:
        rep.undecided.append((f, 'vacuous: every path to %s has contradictory hypotheses (the obligations of this function prove nothing)' % g))
        if f in rep.functions:
            rep.functions.remove(f)
    rep.extra['vacuity_groups_checked'] = len(groups)
    return bad

def finish(rep, obls, pf, technique, assumptions=()):
    pf.discharge(obls)
    pf.discharge(rep.covers)
    try:
        _t = time.time()
        vacuity_guard(rep, obls)
        rep.extra['vacuity_guard_seconds'] = round(time.time() - _t, 1)
    except Exception as ex:
        rep.notes.append('vacuity guard failed: %r' % (ex,))
    rep.obls = obls
    rep.solver_seconds = pf.solver_seconds
    failed = [o for o in obls if o.status != 'discharged']
    from . import replay
    known = replay.load_known(rep.pid)
    rc = 0
    for o in failed:
        kf = replay.match_known(known, o)
        if kf:
            print('KNOWN-FINDING: property=%s %s' % (rep.pid, kf))
            rep.known.append(kf)
            o.known_finding = kf
            continue
        path, tag = replay.make_replay(rep, o)
        line = 'VIOLATION property=%s replay=%s' % (rep.pid, path)
        if tag:
            line += ' ' + tag
        print('  failed obligation: %s (%s, %s)' % (o.name, o.answer, o.solver))
        print(line)
        rep.violations.append((o.name, path, tag))
        rc = 1
    for (f, why) in rep.undecided:
        print('UNDECIDED function=%s reason=%s' % (f, why))
    write_evidence(rep, technique, assumptions)
    n = len(obls)
    print('%s: %d obligations, %d discharged, %d known findings, %d violations, %d functions under contract, %d undecided, %.1fs (solver %.1fs)' % (
        rep.pid, n, sum(1 for o in obls if o.status == 'discharged'), len(rep.known), len(rep.violations), len(rep.functions), len(rep.undecided),
        time.time() - rep.t0, rep.solver_seconds))
    return rc

def write_evidence(rep, technique, assumptions):
    obls = rep.obls
    # obligations that fail as a recorded known finding are reported as findings, not counted among the proved ones
    counted = [o for o in obls if not o.bounded and not getattr(o, 'known_finding', None)]
    bounded = [o for o in obls if o.bounded]
    disc = [o for o in counted if o.status == 'discharged']
    by_solver = {}
    for o in disc:
        by_solver[o.solver] = by_solver.get(o.solver, 0) + 1
    samples = []
    for o in counted[:3]:
        samples.append({'obligation': o.name, 'function': o.func, 'kind': o.kind, 'answer': o.answer, 'solver': o.solver, 'seconds': round(o.seconds, 3),
                        'smt2_head': (o.smt2 or '')[:600]})
    cov_ok = sum(1 for c in rep.covers if c.status == 'discharged')
    ev = {
        'property_id': rep.pid, 'tier': rep.tier, 'seed': rep.seed, 'level': 'proof',
        'coverage': {
            'obligations': len(counted), 'discharged': len(disc),
            'checker_cmd': './vcheck prop %s --tier %s' % (rep.pid, rep.tier),
            'trusted_base': sorted(set(['go/parser+go/types (astdump)', 'gvc VC generator (G0/J0 semantics)', 'z3 4.8.12 / z3 5.1.0 / cvc5 1.0']
                                       + ['assumed contract: ' + a for a in sorted(rep.assumed)] + list(rep.extra_trusted))),
            'samples': samples,
            'functions_under_contract': sorted(rep.functions),
            'paths_per_function': rep.paths,
            'inlined': sorted(rep.inlined), 'assumed_contracts': sorted(rep.assumed), 'lemmas': sorted(rep.lemmas),
            'discharged_by_backend': by_solver, 'solver_seconds': round(rep.solver_seconds, 2),
            'bounded_obligations': [{'name': o.name, 'bound': o.bounded, 'status': o.status} for o in bounded],
            'cover_checks': {'total': len(rep.covers), 'sat': cov_ok},
            'undecided_functions': [{'function': f, 'reason': w} for f, w in rep.undecided],
            'known_findings_hit': rep.known,
            'known_finding_obligations': [{'name': o.name, 'answer': o.answer, 'finding': o.known_finding} for o in obls if getattr(o, 'known_finding', None)],
            'dropped_by_extraction': DROPPED,
            'per_obligation': [{'name': o.name, 'status': o.status, 'answer': o.answer, 'solver': o.solver, 's': round(o.seconds, 3)} for o in obls],
            'technique': technique,
        },
        'assumptions': list(assumptions) + ['assumed contract: ' + a for a in sorted(rep.assumed)] + rep.notes,
        'wall_s': round(time.time() - rep.t0, 2),
        'violations': len(rep.violations),
    }
    ev['coverage'].update(rep.extra)
    outroot = os.environ.get('VERIF_OUT', ROOT)        # (seed-matrix runs write elsewhere)
    os.makedirs(os.path.join(outroot, 'evidence'), exist_ok=True)
    with open(os.path.join(outroot, 'evidence', rep.pid + '.json'), 'w') as f:
        json.dump(ev, f, indent=1)

def contracts_for(spec, pid, kind='func'):
    return [c for c in spec.contracts if c.kind == kind and pid in c.props]

def run_property(pid, tier, seed, verbose=False, only=None):
    rep = Report(pid, tier, seed)
    spec, files = load_specs()
    if not files:
        print('UNDECIDED property=%s reason=contract files missing under %s' % (pid, SPECDIR))
    pf = Portfolio(tier)
    try:
        from . import propdefs
        fn = getattr(propdefs, 'run_' + pid, None)
        if fn is not None:
            return fn(rep, spec, pf, verbose=verbose, only=only)
        return propdefs.run_generic(pid, rep, spec, pf, verbose=verbose, only=only)
    finally:
        pf.close()
