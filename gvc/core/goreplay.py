# Replay of a solver counterexample on the real Go code: the model's inputs are turned into Go literals, an in-package
# test is injected with `go test -overlay` (nothing is written into /repo), the real function runs, and the contract is
# evaluated on the concrete inputs and outputs.
import os, re, json, base64, subprocess, tempfile, shutil
import z3
from .values import *
from .gostate import *
from .gospec import SpecEnv

REPO = os.environ.get('VERIF_REPO', '/repo')
ENV = dict(os.environ, GOFLAGS='-mod=mod', GOPROXY='off', GOSUMDB='off', GOTOOLCHAIN='local')
MAXLEN_REPLAY = 1 << 16

class NoReplay(Exception):
    pass

HELPER = r'''
func gvcEnc(v reflect.Value, depth int) any {
	if depth > 6 { return "deep" }
	switch v.Kind() {
	case reflect.Bool:
		return v.Bool()
	case reflect.Int, reflect.Int8, reflect.Int16, reflect.Int32, reflect.Int64:
		return map[string]any{"n": fmt.Sprint(v.Int())}
	case reflect.Uint, reflect.Uint8, reflect.Uint16, reflect.Uint32, reflect.Uint64, reflect.Uintptr:
		return map[string]any{"n": fmt.Sprint(v.Uint())}
	case reflect.String:
		return map[string]any{"s": []byte(v.String())}
	case reflect.Slice, reflect.Array:
		if v.Kind() == reflect.Slice && v.IsNil() { return map[string]any{"nil": true, "l": []any{}} }
		out := []any{}
		for i := 0; i < v.Len(); i++ { out = append(out, gvcEnc(v.Index(i), depth+1)) }
		return map[string]any{"l": out}
	case reflect.Struct:
		m := map[string]any{}
		for i := 0; i < v.NumField(); i++ { m[v.Type().Field(i).Name] = gvcEnc(v.Field(i), depth+1) }
		return map[string]any{"f": m}
	case reflect.Ptr:
		if v.IsNil() { return nil }
		return map[string]any{"p": gvcEnc(v.Elem(), depth+1)}
	case reflect.Interface:
		if v.IsNil() { return nil }
		return map[string]any{"i": v.Elem().Type().String()}
	}
	return map[string]any{"?": v.Kind().String()}
}
'''

class GoReplayer:
    def __init__(self, verifier, frame, entry, params, rnames, rtids):
        self.v, self.fr, self.entry, self.params, self.rnames, self.rtids = verifier, frame, entry, params, rnames, rtids

    # ---- model -> concrete python values
    def conc(self, m, v, tid, st):
        tt = self.v.tt
        if isinstance(v, z3.ExprRef):
            r = m.eval(v, model_completion=True)
            if z3.is_bool(r): return bool(z3.is_true(r))
            if z3.is_bv(r): return r.as_long()
            return r.as_long()
        if isinstance(v, StrV):
            n = m.eval(v.len, model_completion=True).as_long()
            if n > MAXLEN_REPLAY: raise NoReplay('string too long in model')
            off = m.eval(v.off, model_completion=True).as_long()
            return bytes(m.eval(z3.Select(v.arr, off + i), model_completion=True).as_long() & 0xFF for i in range(n))
        if isinstance(v, SliceV):
            if z3.is_true(m.eval(v.isnil, model_completion=True)): return None
            n = m.eval(v.len, model_completion=True).as_long()
            if n > MAXLEN_REPLAY: raise NoReplay('slice too long in model')
            off = m.eval(v.off, model_completion=True).as_long()
            out = []
            for i in range(n):
                terms = [z3.Select(a, off + i) for a in v.arrs]
                ev = self.v.lay.unflatten(iter(terms), v.etid)
                out.append(self.conc(m, ev, v.etid, st))
            if tt.intinfo(v.etid) and tt.intinfo(v.etid)[0] == 8 and not tt.intinfo(v.etid)[1]:
                return bytes(x & 0xFF for x in out)
            return out
        if isinstance(v, StructV):
            return {f['n']: self.conc(m, v.fields[f['n']], f['t'], st) for f in tt.fields(v.tid)}
        if isinstance(v, PtrV):
            ref = m.eval(v.ref, model_completion=True).as_long()
            if ref == 0: return None
            return {'$ptr': self.conc(m, self.v.load_ptr(st, v), v.etid, st)}
        if isinstance(v, IfaceV):
            ref = m.eval(v.ref, model_completion=True).as_long()
            if ref == 0: return None
            raise NoReplay('non-nil interface input')
        if isinstance(v, FuncV):
            ref = m.eval(v.ref, model_completion=True).as_long() if v.ref is not None else 1
            if ref == 0: return None
            raise NoReplay('function-valued input')
        if isinstance(v, MapV):
            raise NoReplay('map input')
        raise NoReplay('input of kind %r' % type(v))

    # ---- python value -> Go literal source
    def gotype(self, tid, pkg):
        t = self.v.tt[tid]
        if t.get('named'):
            nm = t['named']
            if nm.startswith(pkg + '.'):
                return nm[len(pkg) + 1:]
            if '.' not in nm:
                return nm
            raise NoReplay('type from another package: ' + nm)
        k = t.get('k')
        if k == 'basic': return t['b']
        if k == 'slice': return '[]' + self.gotype(t['e'], pkg)
        if k == 'array': return '[%d]%s' % (t['n'], self.gotype(t['e'], pkg))
        if k == 'ptr': return '*' + self.gotype(t['e'], pkg)
        raise NoReplay('type ' + t['s'])

    def golit(self, val, tid, pkg):
        tt = self.v.tt
        t = tt[tid]
        k = t.get('k')
        if k == 'basic':
            if tt.is_string(tid): return self.gotype(tid, pkg) + '(' + json.dumps(''.join(chr(c) for c in val)).replace('\\u00', '\\x') + ')' if not t.get('named') else '%s("%s")' % (self.gotype(tid, pkg), ''.join('\\x%02x' % c for c in val))
            if tt.is_bool(tid): return 'true' if val else 'false'
            if tt.intinfo(tid): return '%s(%d)' % (self.gotype(tid, pkg), val)
            raise NoReplay('basic ' + t['b'])
        if k == 'slice':
            if val is None: return '%s(nil)' % self.gotype(tid, pkg) if not t.get('named') else 'nil'
            if isinstance(val, bytes):
                return self.gotype(tid, pkg) + '("' + ''.join('\\x%02x' % c for c in val) + '")'
            return self.gotype(tid, pkg) + '{' + ', '.join(self.golit(x, t['e'], pkg) for x in val) + '}'
        if k == 'struct':
            parts = []
            for f in t['f']:
                try:
                    parts.append('%s: %s' % (f['n'], self.golit(val[f['n']], f['t'], pkg)))
                except NoReplay:
                    if val[f['n']] is not None and val[f['n']] != 0:
                        pass          # left at its zero value; the replay notes it
            return self.gotype(tid, pkg) + '{' + ', '.join(parts) + '}'
        if k == 'ptr':
            if val is None: return 'nil'
            return '&' + self.golit(val['$ptr'], t['e'], pkg)
        if k in ('iface', 'func', 'map', 'chan'):
            if val is None: return 'nil'
        raise NoReplay('literal of ' + t['s'])

    def strlit_go(self, b):
        return '"' + ''.join('\\x%02x' % c for c in b) + '"'

    # ---- run the real function
    def run_real(self, inputs):
        decl = self.fr.decl
        path = decl['file']
        pkgrel = decl['pkg']
        with open(path) as f:
            src = f.read()
        mpk = re.search(r'^package\s+(\w+)', src, re.M)
        pkgname = mpk.group(1)
        args, recv = [], None
        decls = []
        for i, (name, tid, val, isrecv) in enumerate(inputs):
            lit = self.golit(val, tid, pkgrel)
            decls.append('\tgvcIn%d := %s' % (i, lit))
            if isrecv: recv = 'gvcIn%d' % i
            else: args.append('gvcIn%d' % i)
        fname = decl['Name']['Name']
        call = ('%s.%s' % (recv, fname) if recv else fname) + '(' + ', '.join(args) + ')'
        nres = len(self.rtids)
        lhs = ', '.join('gvcR%d' % i for i in range(nres))
        body = []
        body += decls
        body.append('\tout := map[string]any{}')
        body.append('\tfunc() {')
        body.append('\t\tdefer func() { if r := recover(); r != nil { out["panic"] = fmt.Sprint(r) } }()')
        if nres:
            body.append('\t\t%s := %s' % (lhs, call))
            for i in range(nres):
                body.append('\t\tout["r%d"] = gvcEnc(reflect.ValueOf(&gvcR%d).Elem(), 0)' % (i, i))
        else:
            body.append('\t\t' + call)
        body.append('\t}()')
        for i, (name, tid, val, isrecv) in enumerate(inputs):
            body.append('\tout["in%d"] = gvcEnc(reflect.ValueOf(&gvcIn%d).Elem(), 0)' % (i, i))
        body.append('\tb, _ := json.Marshal(out)')
        body.append('\tfmt.Println("GVCOUT " + string(b))')
        test = 'package %s\n\nimport (\n\t"encoding/json"\n\t"fmt"\n\t"reflect"\n\t"testing"\n)\n%s\nfunc TestGVCReplay(t *testing.T) {\n%s\n}\n' % (pkgname, HELPER, '\n'.join(body))
        td = tempfile.mkdtemp(prefix='gvc-replay-')
        try:
            tf = os.path.join(td, 'gvc_replay_test.go')
            with open(tf, 'w') as f:
                f.write(test)
            ov = os.path.join(td, 'ov.json')
            target = os.path.join(os.path.dirname(path), 'gvc_replay_test.go')
            with open(ov, 'w') as f:
                json.dump({'Replace': {target: tf}}, f)
            cmd = 'ulimit -v 8000000; cd %s && go test -overlay %s -vet=off -count=1 -timeout 60s -run TestGVCReplay -v ./%s' % (REPO, ov, os.path.relpath(os.path.dirname(path), REPO))
            p = subprocess.run(['sh', '-c', cmd], env=ENV, stdout=subprocess.PIPE, stderr=subprocess.STDOUT, text=True, timeout=300)
            m = re.search(r'GVCOUT (\{.*\})', p.stdout)
            if not m:
                raise NoReplay('replay test produced no output: ' + p.stdout[-1500:])
            return json.loads(m.group(1)), test
        finally:
            shutil.rmtree(td, ignore_errors=True)

    # ---- concrete values -> value domain
    def lift(self, enc, tid, st):
        tt = self.v.tt
        t = tt[tid]
        k = t.get('k')
        if k == 'basic':
            if tt.is_string(tid):
                return strlit(base64.b64decode(enc['s']) if enc and enc.get('s') else b'')
            if tt.is_bool(tid): return z3.BoolVal(bool(enc))
            if tt.intinfo(tid): return z3.IntVal(int(enc['n']))
        if k == 'slice':
            items = enc['l'] if enc else []
            es = self.v.lay.sorts(t['e'])
            arrs = [z3.K(I, self.v.lay._zero_of_sort(s)) for s in es]
            for i, it in enumerate(items):
                ev = self.lift(it, t['e'], st)
                arrs = [z3.Store(a, i, x) for a, x in zip(arrs, self.v.lay.flatten(ev, t['e']))]
            return SliceV(arrs, z3.IntVal(0), z3.IntVal(len(items)), z3.IntVal(len(items)), t['e'], z3.BoolVal(bool(enc and enc.get('nil'))))
        if k == 'struct':
            return StructV(tid, {f['n']: self.lift(enc['f'][f['n'] if not f['n'].startswith('_') or f['n'] in enc['f'] else '_'], f['t'], st) for f in t['f']})
        if k == 'ptr':
            if enc is None: return PtrV(z3.IntVal(0), t['e'])
            ref = z3.IntVal(1000 + len(st.heap))
            p = PtrV(ref, t['e'])
            self.v.store_ptr(st, p, self.lift(enc['p'], t['e'], st))
            return p
        if k in ('iface', 'typeparam'):
            return IfaceV(z3.IntVal(0 if enc is None else 77), z3.IntVal(0), tid)
        if k == 'func':
            return FuncV(ref=z3.IntVal(0 if enc is None else 1))
        raise NoReplay('lift ' + t['s'])

    def lift_py(self, val, tid, st):
        """python concrete (from the model) -> encoded form like the Go side prints"""
        tt = self.v.tt
        t = tt[tid]
        k = t.get('k')
        if k == 'basic':
            if tt.is_string(tid): return {'s': base64.b64encode(bytes(val)).decode()}
            if tt.is_bool(tid): return bool(val)
            return {'n': str(val)}
        if k == 'slice':
            if val is None: return {'nil': True, 'l': []}
            return {'l': [self.lift_py(x, t['e'], st) for x in val]}
        if k == 'struct':
            return {'f': {f['n']: self.lift_py(val[f['n']], f['t'], st) for f in t['f']}}
        if k == 'ptr':
            return None if val is None else {'p': self.lift_py(val['$ptr'], t['e'], st)}
        return None

    def decide(self, st, expr_z3):
        s = z3.Solver(); s.set('timeout', 5000)
        s.add(st.pc); s.add(z3.Not(expr_z3))
        r = s.check()
        if r == z3.unsat: return True
        if r == z3.sat: return False
        return None

    def replayable_types(self):
        """inputs can be written as Go literals of the function's own package only: decided before any solving"""
        pkg = self.fr.key.split(':')[-1]
        slash = pkg.rfind('/'); dot = pkg.find('.', slash + 1)
        pkg = pkg[:dot] if dot >= 0 else pkg
        def walk(tid, depth=0, seen=None):
            seen = seen if seen is not None else set()
            if tid in seen or depth > 8: return
            seen.add(tid)
            t = self.v.tt[tid]
            k = t.get('k')
            if k in ('iface', 'typeparam', 'func', 'chan', 'map'):
                return          # decided per value (nil is fine)
            self.gotype(tid, pkg)
            if k in ('ptr', 'slice', 'array'): walk(t['e'], depth + 1, seen)
            if k == 'struct':
                for f in t.get('f', []): walk(f['t'], depth + 1, seen)
        for (name, tid, val, isrecv) in self.params:
            walk(tid)

    def replay(self, ob):
        try:
            self.replayable_types()
        except NoReplay as e:
            return {'violates': False, 'note': 'not replayable: %s' % e}
        except Exception:
            pass
        s = z3.Solver(); s.set('timeout', 20000)
        s.add(ob.hyps)
        if ob.kind == 'proof': s.add(z3.Not(ob.goal))
        import signal
        signal.alarm(30)          # (replays run in a forked child: a solver call that ignores its timeout ends the child, not the check)
        r0 = s.check()
        signal.alarm(0)
        if r0 != z3.sat:
            return {'violates': False, 'note': 'in-process solver did not reproduce the model'}
        m = s.model()
        try:
            inputs = []
            for (name, tid, val, isrecv) in self.params:
                inputs.append((name, tid, self.conc(m, val, tid, self.entry), isrecv))
            out, testsrc = self.run_real(inputs)
        except NoReplay as e:
            return {'violates': False, 'note': 'not replayable: %s' % e}
        c = self.fr.contract
        res = {'inputs': {n: (v.hex() if isinstance(v, bytes) else repr(v)) for n, t, v, r in inputs}, 'real_output': out, 'test_source': testsrc, 'violated_clauses': []}
        # concrete pre-state / post-state
        try:
            pre, post = State(), State()
            pre.meta['concrete'] = post.meta['concrete'] = True
            binds_pre, binds_post = {}, {}
            for i, (name, tid, val, isrecv) in enumerate(inputs):
                binds_pre[name] = self.lift(self.lift_py(val, tid, pre), tid, pre)
                binds_post[name] = self.lift(out.get('in%d' % i), tid, post) if self.v.tt.kind(tid) == 'ptr' else self.lift(self.lift_py(val, tid, post), tid, post)
            pre.entry = pre
            envpre = SpecEnv(pre, binds_pre, pre)
            for cl in c.get('requires'):
                try:
                    if self.decide(pre, self.v.sev_bool(envpre, cl.expr)) is False:
                        res['note'] = 'model input does not satisfy the precondition (spurious)'
                        res['violates'] = False
                        return res
                except Unsupported:
                    pass
            pcs = c.get('panics_if')
            panicked = 'panic' in out
            must_panic = None
            if pcs:
                vals = [self.decide(pre, self.v.sev_bool(envpre, cl.expr)) for cl in pcs]
                must_panic = True if any(v is True for v in vals) else (False if all(v is False for v in vals) else None)
            if must_panic is not None and must_panic != panicked:
                res['violated_clauses'].append('panics_if: contract says %s, real code %s (%s)' % ('panic' if must_panic else 'no panic', 'panicked' if panicked else 'returned', out.get('panic', '')))
            if panicked and not pcs and not c.get('panics_only_if'):
                res['violated_clauses'].append('unexpected panic: ' + out.get('panic', ''))
            if not panicked:
                for i, (rn, rt) in enumerate(zip(self.rnames, self.rtids)):
                    binds_post[rn] = self.lift(out.get('r%d' % i), rt, post)
                if len(self.rtids) == 1:
                    binds_post['result'] = binds_post[self.rnames[0]]
                envpost = SpecEnv(post, binds_post, pre)
                envpost.binds_old = binds_pre
                for cl in c.get('ensures'):
                    try:
                        d = self.decide(post, self.v.sev_bool(envpost, cl.expr))
                    except (Unsupported, NoReplay, KeyError, AttributeError, z3.Z3Exception):
                        d = None
                    if d is False:
                        res['violated_clauses'].append('ensures %s' % cl.text)
        except (NoReplay, Unsupported, KeyError) as e:
            res['note'] = 'contract could not be evaluated concretely: %r' % (e,)
        res['violates'] = bool(res['violated_clauses'])
        return res
