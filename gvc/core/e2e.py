# End-to-end runner: real compiler + real prelude + node, through an in-package test injected with `go test -overlay`.
import os, json, subprocess, tempfile, re, shutil
ROOT = os.path.dirname(os.path.dirname(os.path.dirname(os.path.abspath(__file__))))
REPO = os.environ.get('VERIF_REPO', '/repo')
ENV = dict(os.environ, GOFLAGS='-mod=mod', GOPROXY='off', GOSUMDB='off', GOTOOLCHAIN='local')

def run(gosrc, jsbody, minify=False, keep=None, timeout=300):
    td = tempfile.mkdtemp(prefix='gvc-e2e-')
    try:
        spec = os.path.join(td, 'spec.json')
        with open(spec, 'w') as f:
            json.dump({'gosrc': gosrc, 'jsbody': jsbody, 'minify': minify}, f)
        ov = os.path.join(td, 'ov.json')
        with open(ov, 'w') as f:
            json.dump({'Replace': {os.path.join(REPO, 'compiler', 'gvc_e2e_test.go'): os.path.join(ROOT, 'harness', 'gvc_e2e_test.go')}}, f)
        env = dict(ENV, GVC_E2E_SPEC=spec)
        if keep: env['GVC_E2E_KEEP'] = keep
        p = subprocess.run(['go', 'test', '-overlay', ov, '-vet=off', '-count=1', '-timeout', '%ds' % timeout, '-run', 'TestGVCE2E', '-v', './compiler/'],
                           cwd=REPO, env=env, stdout=subprocess.PIPE, stderr=subprocess.STDOUT, text=True, timeout=timeout + 60)
        m = re.search(r'GVCE2E-BEGIN\n(.*)\nGVCE2E-END err=(.*)', p.stdout, re.S)
        if not m:
            return None, p.stdout[-3000:]
        return m.group(1).strip(), m.group(2).strip()
    finally:
        shutil.rmtree(td, ignore_errors=True)

if __name__ == '__main__':
    import sys
    out, err = run(open(sys.argv[1]).read(), open(sys.argv[2]).read())
    print(out); print('err:', err)
