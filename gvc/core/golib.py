# Library models written in Python (for calls whose contract needs to look inside boxed / variadic arguments).
# Every model used is reported under assumed_contracts.
import z3
from .values import *
from .gostate import *

pair = z3.Function('pair', I, I, I)
fst = z3.Function('fst', I, I)
snd = z3.Function('snd', I, I)
gosyntax = z3.Function('gosyntax', I, I)            # identity of fmt.Sprintf("%#v", x) as a function of x's identity chain
gosyntax_inv = z3.Function('gosyntax_inv', I, I)
joinid = z3.Function('joinid', I, I)                # identity of path.Join / filepath.Join over clean components
joinid_inv = z3.Function('joinid_inv', I, I)
sha256hex = z3.Function('sha256hex', I, I)          # identity of fmt.Sprintf("%x", sha256.Sum256(b)); collision freedom assumed
sha256hex_inv = z3.Function('sha256hex_inv', I, I)
prefix2 = z3.Function('prefix2', I, I)              # identity of s[0:2]
str_arr_of = z3.Function('str_arr_of', I, ArrII)
str_len_of = z3.Function('str_len_of', I, I)
strs_ident = z3.Function('strs_ident', z3.ArraySort(I, ArrII), z3.ArraySort(I, I), z3.ArraySort(I, I), I, I, I)

def ident_axioms():
    a, b = z3.Ints('a!id b!id')
    return [z3.ForAll([a, b], fst(pair(a, b)) == a), z3.ForAll([a, b], snd(pair(a, b)) == b),
            z3.ForAll([a], gosyntax_inv(gosyntax(a)) == a), z3.ForAll([a], joinid_inv(joinid(a)) == a),
            z3.ForAll([a], sha256hex_inv(sha256hex(a)) == a)]

def chain(ids):
    t = z3.IntVal(0)
    for x in reversed(ids):
        t = pair(x, t)
    return t

class LibMixin:
    def ident_of(self, st, v, tid=None):
        if isinstance(v, StrV):
            return self.mapkey(st, v)
        if isinstance(v, SliceV) and len(v.arrs) == 3:
            return strs_ident(v.arrs[0], v.arrs[1], v.arrs[2], v.off, v.len)
        if isinstance(v, z3.ExprRef) and v.sort() == I:
            return v
        if isinstance(v, StructV):
            return chain([self.ident_of(st, v.fields[f['n']]) for f in self.tt.fields(v.tid)])
        if isinstance(v, ArrayV) and getattr(v, 'ident', None) is not None:
            return v.ident
        raise Unsupported('identity of %r' % (v,))

    def string_with_ident(self, st, idterm, length=None):
        # the string is a function of its identity, so equal identities give equal strings (and equal sub-slices)
        arr = str_arr_of(idterm)
        n = str_len_of(idterm)
        if length is not None:
            st.assume(n == length)
        k = fresh('k!wf')
        st.assume(z3.And(n >= 0, n <= MAXLEN))
        st.assume(z3.ForAll([k], z3.And(z3.Select(arr, k) >= 0, z3.Select(arr, k) <= 255)))
        r = StrV(arr, z3.IntVal(0), n)
        st.assume(self.str_ident(arr, z3.IntVal(0), n) == idterm)
        self.use_ident = True
        return r

    def slice_elems(self, st, s):
        n = z3.simplify(s.len)
        if not z3.is_int_value(n):
            return None
        out = []
        for i in range(n.as_long()):
            out.append(self.lay.unflatten(iter([z3.Select(a, s.off + i) for a in s.arrs]), s.etid))
        return out

    def lib_fmt_Sprintf(self, st, recv, argv, e):
        fmt_, rest = argv[0], argv[1]
        if fmt_.lit is None:
            raise Unsupported('Sprintf with a non-literal format')
        items = self.slice_elems(st, rest) or []
        if fmt_.lit == b'%#v' and len(items) == 1:
            x = items[0]
            conc = self.unbox_known(st, x, e.get('Args')[1])
            return self.string_with_ident(st, gosyntax(self.ident_of(st, conc)))
        if fmt_.lit == b'%x' and len(items) == 1:
            conc = self.unbox_known(st, items[0], e.get('Args')[1])
            if isinstance(conc, ArrayV) and getattr(conc, 'sha_of', None) is not None:
                return self.string_with_ident(st, sha256hex(conc.sha_of), length=64)
        # any other format: some string (its bytes are not modelled)
        self.assumed.add('fmt.Sprintf returns a string and has no effect on the program state (String/Error methods of the operands are assumed pure)')
        a = fresh('sprintf.arr', ArrII); n = fresh('sprintf.len'); k = fresh('k!wf')
        st.assume(z3.And(n >= 0, z3.ForAll([k], z3.And(z3.Select(a, k) >= 0, z3.Select(a, k) <= 255))))
        return StrV(a, z3.IntVal(0), n)

    def unbox_known(self, st, iface, argnode):
        """the concrete value boxed at this call site (the boxing happened in coerce_args, so it is re-evaluated)"""
        return self.ev(st, argnode)

    # reflect.ValueOf(p).Elem().Interface() with p a pointer: the value p points to, boxed
    def lib_reflect_ValueOf(self, st, recv, argv, e):
        x = argv[0]
        r = IfaceV(self.refof(x), getattr(x, 'tag', None) if isinstance(x, IfaceV) else None, None)
        r.reflect_of = x
        return r

    def lib_reflect_Value_Elem(self, st, recv, argv, e):
        v = recv[0] if isinstance(recv, tuple) else recv
        x = getattr(v, 'reflect_of', None)
        if isinstance(x, IfaceV) and isinstance(getattr(x, 'concrete', None), PtrV): x = x.concrete
        if not isinstance(x, PtrV):
            raise Unsupported('reflect.Value.Elem of something that is not a known pointer')
        self.nilcheck(st, x, e.get('line'))
        val = self.load_ptr(st, x)
        r = IfaceV(fresh('refl'), None, None)
        r.reflect_val = (val, x.etid)
        return r

    def lib_reflect_Value_Interface(self, st, recv, argv, e):
        v = recv[0] if isinstance(recv, tuple) else recv
        rv = getattr(v, 'reflect_val', None)
        if rv is None:
            raise Unsupported('reflect.Value.Interface of an untracked value')
        return self.box(st, rv[0], rv[1])

    def lib_reflect_DeepEqual(self, st, recv, argv, e):
        """reflect.DeepEqual(x, zero) with zero the zero value of a pointer/interface type: x is nil.  (G0 identifies an
        interface holding a typed nil pointer with nil; for the node slices this is used on, entries are set to untyped nil.)"""
        x, y = argv[0], argv[1]
        def ref(v):
            if isinstance(v, IfaceV) and isinstance(getattr(v, 'concrete', None), (PtrV, IfaceV)): v = v.concrete
            return v.ref if isinstance(v, (PtrV, IfaceV)) else None
        rx, ry = ref(x), ref(y)
        if rx is None or ry is None:
            raise Unsupported('reflect.DeepEqual on values that are not references')
        ryc = z3.simplify(ry)
        if not (z3.is_int_value(ryc) and ryc.as_long() == 0):
            raise Unsupported('reflect.DeepEqual against something other than the zero value')
        self.assumed.add('reflect.DeepEqual(x, zero value) == (x is nil)')
        return rx == 0

    def lib_crypto_sha256_Sum256(self, st, recv, argv, e):
        b = argv[0]
        tid = e['t']
        v = self.lay.fresh(tid, 'sum')
        src = getattr(b, 'of_str', None)
        v.sha_of = self.mapkey(st, src) if src is not None else self.str_ident(b.arr, b.off, b.len)
        return v

    def lib_path_Join(self, st, recv, argv, e):
        parts = argv[0]
        items = self.slice_elems(st, parts)
        # path.Join ignores empty elements; the result is empty only if every element is
        if items is None:
            # variadic slice of unknown length: identity of the whole list
            r = self.string_with_ident(st, joinid(self.ident_of(st, parts)))
            k = fresh('k!j')      # absolute index into the slice's array (same trigger shape as contract quantifiers)
            st.assume(z3.Implies(r.len == 0, z3.ForAll([k], z3.Implies(z3.And(parts.off <= k, k < parts.off + parts.len), z3.Select(parts.arrs[2], k) == 0))))
            return r
        r = self.string_with_ident(st, joinid(chain([self.ident_of(st, x) for x in items])))
        st.assume(z3.Implies(r.len == 0, z3.And([x.len == 0 for x in items])))
        return r

    lib_path_filepath_Join = lib_path_Join

    # ---- js interop used by the math natives: Math.<f>(x).Float() for the functions ECMA-262 defines exactly
    def lib_js_Object_Call(self, st, recv, argv, e):
        name = argv[0]
        if not isinstance(name, StrV) or name.lit is None:
            raise Unsupported('js.Object.Call with a non-literal method name')
        rest = self.slice_elems(st, argv[1]) or []
        args = e.get('Args')[1:]
        vals = [self.ev(st, a) for a in args]
        n = name.lit.decode()
        if n in ('floor', 'ceil', 'trunc', 'sqrt', 'abs') and len(vals) == 1 and z3.is_fp(vals[0]):
            self.assumed.add('Math.%s is the exact IEEE-754 operation (ECMA-262)' % n)
            x = vals[0]
            r = {'floor': lambda: z3.fpRoundToIntegral(z3.RTN(), x), 'ceil': lambda: z3.fpRoundToIntegral(z3.RTP(), x),
                 'trunc': lambda: z3.fpRoundToIntegral(z3.RTZ(), x), 'sqrt': lambda: z3.fpSqrt(z3.RNE(), x), 'abs': lambda: z3.fpAbs(x)}[n]()
            return JSResult(r)
        if n == 'pow' and len(vals) == 2 and z3.is_int_value(z3.simplify(vals[0])) and z3.simplify(vals[0]).as_long() == 2 \
           and z3.is_int(vals[1]) and 'pow2' in self.spec.pures:
            # Math.pow(2, n), n an integer: the power of two when it is a double (2^-1074 .. 2^1023), +Infinity above, +0 below.
            # ECMA-262 leaves Number::exponentiate implementation-approximated; that engines return the exact power of two is
            # an assumption, `pow2` is the contract file's name for it.
            self.assumed.add('Math.pow(2, n) for an integer n is exactly 2^n when representable (-1074 <= n <= 1023), +Infinity above, +0 below')
            k = vals[1]
            return JSResult(z3.If(k > 1023, z3.fpPlusInfinity(F64), z3.If(k < -1074, z3.fpPlusZero(F64), self.pure_decl('pow2')(k))))
        self.assumed.add('Math.%s is implementation-approximated (ECMA-262 does not fix its bits): opaque' % n)
        f = z3.Function('Math_' + n, *([F64] * len(vals) + [F64])) if all(z3.is_fp(v) for v in vals) else None
        if f is None:
            raise Unsupported('Math.%s with non-float arguments' % n)
        return JSResult(f(*vals))

    def lib_js_Object_Get(self, st, recv, argv, e):
        name = argv[0]
        if isinstance(name, StrV) and name.lit == b'$NaN':
            return JSResult(z3.fpNaN(F64))           # prelude: var $NaN = NaN
        return JSResult(None)

    def lib_js_Object_Float(self, st, recv, argv, e):
        v = recv[0] if recv else None
        if isinstance(v, JSResult) and v.val is not None:
            return v.val
        raise Unsupported('js.Object.Float on an unknown object')

class JSResult:
    """a *js.Object wrapping a JavaScript number"""
    def __init__(self, val):
        self.val = val
