package main

func main() {}

type S struct{ A int }
type AR [2]int

func F() int {
	ps := make([]S, 1, 1)
	ps[0].A = 1
	q := append(ps, S{2})
	q[0].A = 99
	return ps[0].A*1000 + q[0].A
}

func G() int {
	ps := make([]AR, 1, 1)
	ps[0][0] = 1
	q := append(ps, AR{2, 2})
	q[0][0] = 99
	return ps[0][0]*1000 + q[0][0]
}

func H() int {
	ps := make([]S, 1, 1)
	ps[0].A = 1
	p := &ps[0]
	q := append(ps, S{2})
	p.A = 7
	return ps[0].A*1000 + q[0].A
}
