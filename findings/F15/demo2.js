console.log("Share", P.Share(), "Realloc", P.Realloc(), "Loop", P.Loop(), "AppendSlice", P.AppendSlice());
