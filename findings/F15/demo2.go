package main

func main() {}

type In struct{ V [2]int }
type S struct {
	A int
	N In
}

func Share() int {
	a := make([]S, 1, 4)
	a[0].A = 1
	b := append(a, S{A: 2})
	b[0].A = 9
	b[0].N.V[1] = 5
	return a[0].A*100 + a[0].N.V[1]*10 + len(b) // 9*100+50+2 = 952
}

func Realloc() int {
	a := make([]S, 2, 2)
	a[0].N.V[0] = 3
	a[1].A = 4
	b := append(a, S{A: 7}, S{A: 8})
	b[0].N.V[0] = 6
	a[1].A = 5
	// a: [ {0,{3,0}}, {5} ]  b: [ {0,{6,0}}, {4}, {7}, {8} ]
	return a[0].N.V[0]*10000 + a[1].A*1000 + b[0].N.V[0]*100 + b[1].A*10 + b[3].A // 3*10000+5000+600+40+8=35648
}

func Loop() int {
	var s [][2]int
	var ptrs []*[2]int
	for i := 0; i < 20; i++ {
		s = append(s, [2]int{i, i})
		ptrs = append(ptrs, &s[i])
	}
	// pointers taken before later reallocations refer to old arrays
	for _, p := range ptrs {
		p[0] = -1
	}
	n := 0
	for i := range s {
		if s[i][0] == -1 {
			n++
		}
	}
	return n
}

func AppendSlice() int {
	a := make([]S, 1, 1)
	a[0].A = 1
	c := []S{{A: 2}, {A: 3}}
	b := append(a, c...)
	c[0].A = 20
	b[0].A = 10
	return a[0].A*1000 + b[0].A*10 + b[1].A // 1*1000 + 100 + 2 = 1102
}
