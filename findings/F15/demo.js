console.log("F", P.F(), "G", P.G(), "H", P.H());
