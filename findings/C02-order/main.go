package main

var trace []int

func t(n int) int { trace = append(trace, n); return n }

var ch = make(chan int, 100)

func blk(n int) int { // suspends: unbuffered rendezvous with a helper goroutine
	c := make(chan int)
	go func() { c <- n }()
	trace = append(trace, 100+n)
	return <-c
}

func sum3(a, b, c int) int { return a*100 + b*10 + c }

type S struct{ a [3]int; m map[int]int }

func (s *S) idx(i int) *int { t(50 + i); return &s.a[i] }

func ArgsOrder() int      { return sum3(t(1), blk(2), t(3)) }
func IndexAssign() int    { var a [4]int; a[t(1)] = blk(7); a[blk(2)] = t(8); return a[1]*10 + a[2] }
func MapOpAssign() int    { m := map[int]int{1: 5}; m[t(1)] += blk(3); m[blk(1)] *= t(2); return m[1] }
func ShortCircuit() int {
	r := 0
	if t(0) == 1 && blk(1) == 1 { r += 1 }
	if t(1) == 1 || blk(2) == 2 { r += 10 }
	if blk(0) == 1 || t(3) == 3 { r += 100 }
	if blk(1) == 1 && blk(2) == 2 && t(4) == 4 { r += 1000 }
	return r
}
func SwitchBlk() int {
	r := 0
	for i := 0; i < 4; i++ {
		switch blk(i) {
		case t(9), blk(1): r += 1
		case blk(2): r += 10
		default: r += 100
		}
	}
	return r
}
func LabeledLoops() int {
	r := 0
outer:
	for i := 0; i < 4; i++ {
		for j := 0; j < 4; j++ {
			v := blk(i*4 + j)
			if v%5 == 4 { continue outer }
			if v == 10 { break outer }
			r += v
		}
	}
	return r
}
func DeferBlk() (r int) {
	defer func() { r += blk(5) }()
	defer func(v int) { r += v * 10 }(blk(2))
	return blk(1) * 100
}
func RangeBlk() int {
	r := 0
	for i, v := range []int{blk(3), t(4), blk(5)} {
		r = r*10 + i + blk(v)
	}
	return r
}
func MultiAssign() int {
	a, b := blk(1), t(2)
	a, b = b+blk(3), a+t(4)
	return a*100 + b
}
func PtrMethod() int {
	s := &S{}
	*s.idx(t(1)) = blk(4)
	*s.idx(blk(2)) += t(3)
	return s.a[1]*10 + s.a[2]
}
func Closures() int {
	fs := []func() int{}
	for i := 0; i < 3; i++ {
		v := blk(i)
		fs = append(fs, func() int { return v + blk(10) })
	}
	r := 0
	for _, f := range fs { r = r*100 + f() }
	return r
}
func SelectInLoop() int {
	a := make(chan int); b := make(chan int)
	go func() { for i := 0; i < 3; i++ { a <- i }; close(a) }()
	go func() { for i := 0; i < 2; i++ { b <- 10 + i }; close(b) }()
	r := 0
	for a != nil || b != nil {
		select {
		case v, ok := <-a:
			if !ok { a = nil; continue }
			r += v
		case v, ok := <-b:
			if !ok { b = nil; continue }
			r += v * 100
		}
	}
	return r
}
func Conversions() int {
	f := float64(blk(3)) / 2
	u := uint8(blk(250) + t(10))
	s := string(rune(blk(65)))
	return int(f*10) + int(u) + len(s)
}
func CompositeLit() int {
	x := []int{t(1), blk(2), t(3)}
	m := map[int]int{blk(1): t(10), t(2): blk(20)}
	st := struct{ a, b int }{blk(4), t(5)}
	return x[1] + m[1] + m[2] + st.a*100 + st.b
}
func run(name string, f func() int) {
	trace = nil
	r := f()
	h := 0
	for _, v := range trace { h = (h*31 + v) % 1000003 }
	print(name, " ", r, " :"); for _, v := range trace { print(" ", v) }; println()
}
func main() {
	run("ArgsOrder", ArgsOrder)
	run("IndexAssign", IndexAssign)
	run("MapOpAssign", MapOpAssign)
	run("ShortCircuit", ShortCircuit)
	run("SwitchBlk", SwitchBlk)
	run("LabeledLoops", LabeledLoops)
	run("DeferBlk", DeferBlk)
	run("RangeBlk", RangeBlk)
	run("MultiAssign", MultiAssign)
	run("PtrMethod", PtrMethod)
	run("Closures", Closures)
	run("SelectInLoop", SelectInLoop)
	run("Conversions", Conversions)
	run("CompositeLit", CompositeLit)
}
