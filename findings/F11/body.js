console.log(tryc(function() { return String(P.StrIdx("abc", 1)); }));   // 98
console.log(tryc(function() { return String(P.StrIdx("abc", 5)); }));   // Go: panic: index out of range (before the fix: NaN)
console.log(tryc(function() { return String(P.StrIdx("abc", -1)); }));  // Go: panic
