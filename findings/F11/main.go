package main

func main() {}

func StrIdx(s string, i int) byte { return s[i] }
