package main

type P struct{ X, Y int }
type Arr [2]int
type Err struct{ code int; msg string }
type W struct{ P; tag string }

func (p P) Sum() int        { return p.X + p.Y }
func (p P) Bump() int       { p.X += 100; return p.X }
func (p *P) Inc()           { p.X++ }
func (a Arr) Tot() int      { return a[0] + a[1] }
func (a Arr) Clobber() int  { a[0] = 99; return a[0] }
func (a *Arr) Set(v int)    { a[0] = v }
func (e Err) Error() string { return e.msg }
func (e *Err) Code() int    { return e.code }

type summer interface{ Sum() int }
type bumper interface{ Bump() int }
type incer interface{ Inc() }
type toter interface{ Tot() int; Clobber() int }
type setter interface{ Set(int) }

func mayFail(n int) error {
	if n > 0 { return Err{n, "bad"} }
	return nil
}
func ptrFail(n int) error { return &Err{n, "pbad"} }

func main() {
	p := P{1, 2}
	var s summer = p
	var b bumper = p
	var i incer = &p
	i.Inc()
	println("a", s.Sum(), b.Bump(), b.Bump(), p.X, b.(P).X)
	a := Arr{1, 2}
	var t toter = a
	var st setter = &a
	st.Set(7)
	println("b", t.Tot(), t.Clobber(), t.Tot(), a[0], t.(Arr)[0])
	e := mayFail(3)
	if er, ok := e.(Err); ok { er.code = 9; println("c", er.code, e.(Err).code, e.Error()) }
	pe := ptrFail(4)
	if er, ok := pe.(*Err); ok { er.code = 9; println("d", pe.(*Err).Code(), pe.Error()) }
	w := W{P{3, 4}, "w"}
	var sw summer = w
	w.X = 50
	println("e", sw.Sum(), w.Sum(), sw.(W).X)
	var sp summer = &w
	w.X = 60
	println("f", sp.Sum())
	m := map[interface{}]int{P{1, 2}: 1, Arr{1, 2}: 2}
	k := P{1, 2}
	var ik interface{} = k
	k.X = 5
	println("g", m[ik], m[P{1, 2}], m[Arr{1, 2}], m[k])
	f := s.Sum
	g := b.Bump
	println("h", f(), g(), g())
	var x, y interface{} = P{1, 2}, P{1, 2}
	println("i", x == y, x == interface{}(p), x != interface{}(P{9, 9}))
	list := []interface{}{p, &p, a, &a}
	p.X = 1000; a[0] = 2000
	println("j", list[0].(P).X, list[1].(*P).X, list[2].(Arr)[0], list[3].(*Arr)[0])
	switch v := list[0].(type) {
	case P:
		v.X = 1
		println("k", v.X, list[0].(P).X)
	}
	c := make(chan interface{}, 1)
	c <- p
	p.X = 3000
	println("l", (<-c).(P).X)
	fn := func(v interface{}) int { q := v.(P); q.X++; return q.X }
	println("m", fn(p), p.X)
}
