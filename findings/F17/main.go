package main

func main() {}

func F2I(x float64) int64  { return int64(x) }
func F2U(x float64) uint64 { return uint64(x) }
