// expected values are Go's: conversion truncates toward zero
var cases = [[4294967295.5, "4294967295"], [8589934591.25, "8589934591"], [0.5, "0"], [-0.5, "0"], [-4294967296.5, "-4294967296"], [1.5, "1"], [4294967296.5, "4294967296"]];
for (var c of cases) { var g = i64(P.F2I(c[0])); console.log("int64(" + c[0] + ") = " + g + (g === c[1] ? " ok" : " WRONG, Go gives " + c[1])); }
var ucases = [[4294967295.5, "4294967295"], [12884901887.75, "12884901887"]];
for (var c of ucases) { var g = i64(P.F2U(c[0])); console.log("uint64(" + c[0] + ") = " + g + (g === c[1] ? " ok" : " WRONG, Go gives " + c[1])); }
