package main

import "math"

var sink float64

func main() {
	xs := []float64{1e10, -1e10, 2147483648.5, 3.7, -3.7, 4294967296, 1e300, -2.5e-310}
	for _, x := range xs {
		t := math.Trunc(x)
		i, f := math.Modf(x)
		println(x, "Trunc:", t, "Modf:", i, f)
	}
}
