module f4demo
go 1.20
