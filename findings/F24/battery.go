package main



type E struct{ n int }

func (e E) Error() string { return "E" }

func catch(f func()) (r int) {
	defer func() {
		if v := recover(); v != nil {
			switch x := v.(type) {
			case int:
				r = 1000 + x
			case string:
				r = 2000 + len(x)
			case E:
				r = 3000 + x.n
			case error:
				r = 4000 + len(x.Error())
			default:
				r = 9999
			}
		}
	}()
	f()
	return 1
}

func Order() int {
	x := 0
	func() {
		for i := 1; i <= 3; i++ {
			defer func(k int) { x = x*10 + k }(i)
		}
	}()
	return x
}
func ArgsEval() int {
	x := 1
	r := 0
	func() {
		defer func(v int) { r = v }(x)
		x = 2
	}()
	return r*10 + x
}
func NamedResult() (r int) {
	defer func() { r *= 2 }()
	return 21
}
func RecoverValue() int { return catch(func() { panic(7) }) }
func RecoverStr() int   { return catch(func() { panic("abc") }) }
func RecoverErr() int   { return catch(func() { panic(E{5}) }) }
func RuntimeErr() int   { return catch(func() { var a []int; _ = a[3] }) }
func DivErr() int       { return catch(func() { z := 0; _ = 1 / z }) }
func NilMapErr() int    { return catch(func() { var m map[int]int; m[1] = 1 }) }
func Repanic() int {
	return catch(func() {
		defer func() {
			recover()
			panic(9)
		}()
		panic(1)
	})
}
func NestedRecover() int {
	r := 0
	func() {
		defer func() {
			defer func() { r += 100 * recover().(int) }()
			panic(2)
		}()
		defer func() { r += recover().(int) }()
		panic(1)
	}()
	return r
}
func RecoverNotDirect() int {
	return catch(func() {
		defer func() {
			func() { recover() }() // not called directly by the deferred function: does not recover
		}()
		panic(5)
	})
}
func PanicInDefer() int {
	return catch(func() {
		defer func() { panic(8) }()
		panic(3)
	})
}
func DeferAfterPanic() int {
	x := 0
	catch(func() {
		defer func() { x += 1 }()
		defer func() { x += 10 }()
		panic(1)
	})
	return x
}
func RecoverReturnsNilOutside() int {
	if recover() != nil {
		return 1
	}
	return 0
}
func ModifyResultAfterPanic() (r int) {
	defer func() {
		recover()
		r = 77
	}()
	panic(1)
}
func DeferLoopClosure() int {
	x := 0
	func() {
		for i := 0; i < 3; i++ {
			defer func() { x = x*10 + i }()
		}
	}()
	return x
}
func DeferMethodValue() int {
	e := E{1}
	r := 0
	func() {
		defer func(v E) { r = v.n }(e)
		e.n = 2
	}()
	return r
}
func NilFuncDefer() int {
	return catch(func() {
		var f func()
		defer f()
	})
}
func PanicNil() int {
	return catch(func() { panic(nil) })
}
func ConvPanic() int {
	return catch(func() { s := []int{1}; _ = [2]int(s) })
}
func SliceBounds() int {
	return catch(func() { s := []int{1, 2, 3}; i := 2; j := 1; _ = s[i:j] })
}
func AssertErr() int {
	return catch(func() { var i interface{} = "x"; _ = i.(int) })
}




func try2(f func()) (r int) {
	defer func() {
		if v := recover(); v != nil {
			r = 1
		}
	}()
	f()
	return 0
}
func SendClosed() int  { c := make(chan int, 1); close(c); return try2(func() { c <- 1 }) }
func CloseTwice() int  { c := make(chan int, 1); close(c); return try2(func() { close(c) }) }
func RecvClosed() int  { c := make(chan int, 2); c <- 7; close(c); a, ok1 := <-c; b, ok2 := <-c; r := a*100 + b*10; if ok1 { r += 1 }; if ok2 { r += 5 }; return r }
func LenCap() int      { c := make(chan int, 3); c <- 1; c <- 2; return len(c)*10 + cap(c) }
func SelectDefault() int {
	c := make(chan int, 1)
	r := 0
	select {
	case v := <-c:
		r = v
	default:
		r = 5
	}
	c <- 3
	select {
	case v := <-c:
		r = r*10 + v
	default:
		r = r*10 + 9
	}
	return r
}
func SelectSendClosed() int {
	c := make(chan int, 1)
	close(c)
	return try2(func() {
		select {
		case c <- 1:
		default:
		}
	})
}
func NilChanSelect() int {
	var c chan int
	select {
	case <-c:
		return 1
	case c <- 1:
		return 2
	default:
		return 3
	}
}
func RangeClosed() int {
	c := make(chan int, 3)
	c <- 1; c <- 2; c <- 3
	close(c)
	s := 0
	for v := range c { s = s*10 + v }
	return s
}
func NilMapOps() int {
	var m map[string]int
	delete(m, "a")
	v, ok := m["a"]
	r := len(m) + v
	if ok { r += 100 }
	for range m { r += 1000 }
	return r
}
func MapDeleteDuringRange() int {
	m := map[int]int{1: 1, 2: 2, 3: 3}
	n := 0
	for k := range m { delete(m, k); n++ }
	return n*10 + len(m)
}
func NaNKey() int {
	m := map[float64]int{}
	z := 0.0
	nan := z / z
	m[nan] = 1
	m[nan] = 2
	_, ok := m[nan]
	r := len(m)
	if ok { r += 10 }
	return r
}
func ZeroKeys() int {
	m := map[float64]int{}
	z := 0.0
	m[z] = 1
	m[-z] = 2
	return len(m)*10 + m[0]
}
func IfaceKeys() int {
	m := map[interface{}]int{}
	m[1] = 1
	m[int64(1)] = 2
	m["1"] = 3
	m[[2]int{1, 2}] = 4
	m[struct{ a int }{1}] = 5
	return len(m)*100 + m[1]*10 + m[[2]int{1, 2}]
}
func UnhashableKey() int {
	m := map[interface{}]int{}
	return try2(func() { m[[]int{1}] = 1 })
}
func Pipeline() int {
	src := make(chan int)
	sq := make(chan int)
	go func() { for i := 1; i <= 5; i++ { src <- i }; close(src) }()
	go func() { for v := range src { sq <- v * v }; close(sq) }()
	t := 0
	for v := range sq { t += v }
	return t
}
func WorkerPanics() int {
	res := make(chan int, 4)
	for i := 0; i < 4; i++ {
		go func(k int) {
			defer func() { if v := recover(); v != nil { res <- -k } }()
			if k%2 == 1 { panic(k) }
			res <- k * 10
		}(i)
	}
	t := 0
	for i := 0; i < 4; i++ { t += <-res }
	return t
}
func SelectLoop() int {
	a, b, quit := make(chan int), make(chan int), make(chan bool)
	go func() { for i := 0; i < 3; i++ { a <- i }; for i := 0; i < 2; i++ { b <- 10 }; quit <- true }()
	t := 0
	for {
		select {
		case v := <-a: t += v
		case v := <-b: t += v
		case <-quit: return t
		}
	}
}
func DeferInLoopWithBlocking() int {
	c := make(chan int, 1)
	t := 0
	for i := 0; i < 3; i++ {
		func() {
			defer func() { t += <-c }()
			c <- i + 1
		}()
	}
	return t
}
func main() {
	println("Order=", Order())
	println("ArgsEval=", ArgsEval())
	println("NamedResult=", NamedResult())
	println("RecoverValue=", RecoverValue())
	println("RecoverStr=", RecoverStr())
	println("RecoverErr=", RecoverErr())
	println("RuntimeErr=", RuntimeErr())
	println("DivErr=", DivErr())
	println("NilMapErr=", NilMapErr())
	println("Repanic=", Repanic())
	println("NestedRecover=", NestedRecover())
	println("RecoverNotDirect=", RecoverNotDirect())
	println("PanicInDefer=", PanicInDefer())
	println("DeferAfterPanic=", DeferAfterPanic())
	println("RecoverReturnsNilOutside=", RecoverReturnsNilOutside())
	println("ModifyResultAfterPanic=", ModifyResultAfterPanic())
	println("DeferLoopClosure=", DeferLoopClosure())
	println("DeferMethodValue=", DeferMethodValue())
	println("NilFuncDefer=", NilFuncDefer())
	println("PanicNil=", PanicNil())
	println("ConvPanic=", ConvPanic())
	println("SliceBounds=", SliceBounds())
	println("AssertErr=", AssertErr())
	println("SendClosed=", SendClosed())
	println("CloseTwice=", CloseTwice())
	println("RecvClosed=", RecvClosed())
	println("LenCap=", LenCap())
	println("SelectDefault=", SelectDefault())
	println("SelectSendClosed=", SelectSendClosed())
	println("NilChanSelect=", NilChanSelect())
	println("RangeClosed=", RangeClosed())
	println("NilMapOps=", NilMapOps())
	println("MapDeleteDuringRange=", MapDeleteDuringRange())
	println("NaNKey=", NaNKey())
	println("ZeroKeys=", ZeroKeys())
	println("IfaceKeys=", IfaceKeys())
	println("UnhashableKey=", UnhashableKey())
	println("Pipeline=", Pipeline())
	println("WorkerPanics=", WorkerPanics())
	println("SelectLoop=", SelectLoop())
	println("DeferInLoopWithBlocking=", DeferInLoopWithBlocking())
}
