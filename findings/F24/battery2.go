package main

func blk(n int) int {
	c := make(chan int)
	go func() { c <- n }()
	return <-c
}

func A() (r int) { // blocking function with defer + recover, panic after a suspension
	defer func() {
		if v := recover(); v != nil { r = v.(int) + blk(1000) }
	}()
	x := blk(1)
	panic(x + 1)
}
func B() (r int) { // deferred function blocks, then the body's result is modified
	defer func() { r += blk(10) }()
	r = blk(1)
	return r * 2
}
func C() int { // panic in a callee that suspended, recovered by the caller which also suspends afterwards
	r := 0
	func() {
		defer func() { recover(); r += blk(5) }()
		func() {
			blk(1)
			panic("x")
		}()
		r += 1000
	}()
	return r + blk(20)
}
func D() (r int) { // several defers, some blocking, panic in between, loop afterwards
	for i := 0; i < 3; i++ {
		func() {
			defer func() { r += blk(i) }()
			defer func() { recover() }()
			if blk(i) == 1 { panic(i) }
			r += 10
		}()
	}
	return
}
func E() int { // recover re-enters blocking code, then panics again, recovered outside
	r := 0
	func() {
		defer func() { if v := recover(); v != nil { r += v.(int) } }()
		func() {
			defer func() {
				v := recover()
				blk(1)
				panic(v.(int) * 10)
			}()
			blk(2)
			panic(4)
		}()
	}()
	return r
}
func F() (r int) { // return value set, then deferred blocking call panics and is recovered by an earlier defer
	defer func() { if v := recover(); v != nil { r = r*10 + v.(int) } }()
	defer func() { blk(1); panic(7) }()
	return blk(3)
}
func G() int { // goroutine with blocking deferred calls communicates result
	res := make(chan int)
	go func() {
		r := 0
		defer func() { res <- r }()
		defer func() { r += blk(2) }()
		defer func() { recover(); r += 100 }()
		blk(1)
		var m map[int]int
		m[1] = 1
	}()
	return <-res
}
func H() int { // select with blocking in deferred call while panicking
	c := make(chan int, 1)
	r := 0
	func() {
		defer func() { recover() }()
		defer func() {
			select {
			case c <- blk(3):
			default:
			}
			r = <-c
		}()
		panic(1)
	}()
	return r
}
func main() {
	println("A", A()); println("B", B()); println("C", C()); println("D", D())
	println("E", E()); println("F", F()); println("G", G()); println("H", H())
}
