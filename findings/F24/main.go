package main

func catch(f func()) (r int) {
	defer func() {
		if v := recover(); v != nil {
			if x, ok := v.(int); ok { r = 1000 + x } else { r = 9999 }
		}
	}()
	f()
	return 1
}
func PanicInDefer() int {
	return catch(func() {
		defer func() { panic(8) }()
		panic(3)
	})
}
func main() { println("PanicInDefer=", PanicInDefer()); println("done") }
