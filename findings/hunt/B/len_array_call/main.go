package main

func f() [3]int32 { println("f"); return [3]int32{} }

func main() {
	println(len(f())) // not a constant: f is called; prints f, 3
}
