package main

type Float interface{ ~float32 | ~float64 }
type MyF64 float64

func half[T Float]() T     { return T(0.5) }
func scale[T Float](x T) T { return x * T(2.5) }

func main() {
	println(half[float64]() == 0.5, half[float32]() == 0.5, half[MyF64]() == 0.5) // true true true
	println(scale[float32](2) == 5, scale[MyF64](2) == 5)                           // true true
}
