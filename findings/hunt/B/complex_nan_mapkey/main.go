package main

import "math"

func main() {
	nan := complex(math.NaN(), 0)
	m := map[complex128]int32{}
	m[nan] = 3
	m[nan] = 4 // NaN != NaN: a second entry
	v, ok := m[nan]
	println(len(m), v, ok) // 2 0 false
	var k interface{} = nan
	mi := map[interface{}]int32{}
	mi[k] = 1
	mi[k] = 2
	println(len(mi)) // 2
}
