package main

import "math"

func main() {
	k := [2]float64{math.NaN(), 1}
	m := map[[2]float64]int32{}
	m[k] = 1
	m[k] = 2 // NaN != NaN: k is not equal to itself, a second entry
	v, ok := m[k]
	println(len(m), v, ok, k == k) // 2 0 false false
}
