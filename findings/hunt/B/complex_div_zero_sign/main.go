package main

import "math"

var a, b complex128 = 1 + 1i, 1 - 1i

func main() {
	c := a / b // exactly 0+1i
	println(math.Signbit(real(c)), imag(c) == 1) // false true
}
