package main

func f() int32 { println("f"); return 1 }
func recv(c chan int32) int32 {
	println("recv")
	return <-c
}

func main() {
	c := make(chan int32, 1)
	c <- 10
	println(f() + recv(c)) // calls happen in lexical order: f, recv
}
