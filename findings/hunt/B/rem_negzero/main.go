package main

import "math"

var a, b int32 = -4, 2

func main() {
	r := a % b // 0
	f := float64(r)
	println(math.Signbit(f), 1/f < 0, math.Float64bits(f) == 0)
}
