package main

import "math"

type Float interface{ ~float32 | ~float64 }

func eqc[T Float](x T) bool { return x == 0.1 }
func mulc[T Float](x T) T   { return x * 0.1 }
func lit[T Float]() T       { var v T = 0.1; return v }
func key[T Float]() map[T]int32 { return map[T]int32{0.1: 1} }

type C interface{ ~complex64 | ~complex128 }

func ceq[T C](x T) bool { return x == 0.1+0.2i }

var seven float32 = 7

func main() {
	var x float32 = 0.1
	println(eqc(x), x == 0.1) // true true
	y := seven * 0.37
	println(math.Float32bits(mulc(y)), math.Float32bits(y*0.1)) // equal
	var i, j interface{} = lit[float32](), x
	println(i == j, lit[float32]() == x) // true true
	println(key[float32]()[x])           // 1
	println(ceq(complex64(0.1 + 0.2i)))  // true
}
