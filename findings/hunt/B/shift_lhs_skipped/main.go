package main

var n uint32 = 40

func f() uint32 { println("f"); return 1 }
func g() uint32 { println("g"); return n }

func main() {
	println(f() << 40)  // constant count >= 32: f must still be called
	println(f() << n)   // variable count >= 32: f must still be called
	println(f() >> g()) // f is called before g
	n = 3
	println(f() << g()) // f is called before g
}
