package main

type P struct{ X int32 }

func (p P) Bump() int32 { p.X++; return p.X } // value receiver: works on a copy

type E struct{ P }   // promotes Bump through a value
type EP struct{ *P } // promotes Bump through a pointer

type I interface{ Bump() int32 }

func main() {
	// every line: Go prints 2 2 1 (the receiver variable is never modified)
	p := P{1}
	f := (*P).Bump // method expression with pointer type, value-receiver method
	println("(*P).Bump", f(&p), f(&p), p.X)

	e := E{P{1}}
	h := (*E).Bump
	println("(*E).Bump", h(&e), h(&e), e.X)

	q := P{1}
	var i I = &q // pointer in an interface; method set of *P includes Bump
	println("I(&q).Bump()", i.Bump(), i.Bump(), q.X)

	e2 := E{P{1}}
	var j I = &e2
	println("I(&e2).Bump()", j.Bump(), j.Bump(), e2.X)

	r := P{1}
	var k I = EP{&r}
	println("I(EP{&r}).Bump()", k.Bump(), k.Bump(), r.X)

	r2 := P{1}
	ep := EP{&r2}
	println("EP{&r2}.Bump()", ep.Bump(), ep.Bump(), r2.X)
}
