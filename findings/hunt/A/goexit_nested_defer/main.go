package main

import "runtime"

func inner() {
	defer println("inner defer") // any deferred call in the frame that calls Goexit...
	runtime.Goexit()
	println("not reached 1")
}

func main() {
	done := make(chan bool)
	go func() {
		defer func() { done <- true }()
		inner()
		// ...and the goroutine is not terminated: the caller resumes here.
		println("BUG: caller of inner resumed after runtime.Goexit")
	}()
	<-done

	go func() {
		defer func() { done <- true }()
		// Goexit in a deferred call while panicking ends the panic (Go: recover() == nil).
		defer func() { println("recover() == nil:", recover() == nil) }()
		defer func() { runtime.Goexit() }()
		panic("x")
	}()
	<-done
	println("end")
}
