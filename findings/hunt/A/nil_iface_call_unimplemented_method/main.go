package main

import "runtime"

// No type in the program has a method named Frob.
type I interface{ Frob() int32 }

func main() {
	defer func() {
		r := recover()
		_, ok := r.(runtime.Error)
		println("recovered:", r != nil, "runtime.Error:", ok) // Go: true true
	}()
	var i I
	println(i.Frob())
}
