package main

//go:noinline
func id(x int) int { return x }

func main() {
	// Spec (Making slices, maps and channels): only "for slices and channels" a
	// negative size is a run-time panic; for maps n is a hint. Go (>= 1.9 ... 1.23)
	// creates the map.
	defer func() { println("recovered:", recover() != nil) }()
	m := make(map[int32]int32, id(-1))
	m[1] = 1
	println("len", len(m))
}
