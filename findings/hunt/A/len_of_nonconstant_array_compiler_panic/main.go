package main

type S struct{ A [3]int32 }

var calls int

func f() *S       { calls++; return &S{} }
func g() [4]int32 { calls++; return [4]int32{} }

func main() {
	// len/cap of an array are not constant when the operand contains a function
	// call; the operand is then evaluated.
	println(len(f().A), cap(f().A), len(g()), calls) // Go: 3 3 4 3
}
