package main

// recover() called directly by a deferred METHOD must stop the panic, whatever
// path selected the method. GopherJS reaches several of these methods through a
// proxy/wrapper function (one extra JavaScript frame), and $recover's stack-depth
// test then reports "not called directly by a deferred function".

type R struct{ x int32 }

func (r R) rec() { recover() } // struct, value receiver

type N int32

func (n N) rec() { recover() } // non-struct, value receiver

type S struct{ x int32 }

func (s *S) rec() { recover() } // pointer receiver

type ES struct{ S }   // promotes (*S).rec
type EPS struct{ *S } // promotes (*S).rec through a pointer
type EN struct{ N }   // promotes N.rec

type I interface{ rec() }

func run(name string, f func()) {
	defer func() {
		if recover() != nil {
			println(name, "- panic NOT recovered by the deferred method")
		} else {
			println(name, "- ok")
		}
	}()
	f()
}

func main() {
	// regressions of the $methodValCopy change (fine on the original snapshot):
	run("defer r.rec()           [struct value]", func() { r := R{}; defer r.rec(); panic(1) })
	run("defer p.rec()           [p *R, value method]", func() { p := &R{}; defer p.rec(); panic(1) })
	run("f := r.rec; defer f()", func() { r := R{}; f := r.rec; defer f(); panic(1) })
	// present on the original snapshot as well:
	run("defer I(R{}).rec()", func() { var i I = R{}; defer i.rec(); panic(1) })
	run("defer R.rec(r)", func() { r := R{}; defer R.rec(r); panic(1) })
	run("defer p.rec()           [p *N, value method]", func() { n := N(1); p := &n; defer p.rec(); panic(1) })
	run("defer I(&n).rec()       [*N in interface]", func() { n := N(1); var i I = &n; defer i.rec(); panic(1) })
	run("defer (*N).rec(&n)", func() { n := N(1); defer (*N).rec(&n); panic(1) })
	run("defer I(&ES{}).rec()    [promoted]", func() { var i I = &ES{}; defer i.rec(); panic(1) })
	run("defer I(EPS{&S{}}).rec() [promoted]", func() { var i I = EPS{&S{}}; defer i.rec(); panic(1) })
	run("defer I(EN{}).rec()     [promoted]", func() { var i I = EN{}; defer i.rec(); panic(1) })
	// controls that work:
	run("defer n.rec()           [N value]", func() { n := N(1); defer n.rec(); panic(1) })
	run("defer s.rec()           [*S]", func() { s := &S{}; defer s.rec(); panic(1) })
}
