package main

import "runtime"

func try(name string, f func()) {
	defer func() {
		r := recover()
		if r == nil {
			println(name, "no panic")
		} else if _, ok := r.(runtime.Error); ok {
			println(name, "runtime.Error")
		} else {
			println(name, "panic that is not a runtime.Error")
		}
	}()
	f()
}

var sink int32

func main() {
	var p *[2]int32  // nil
	var q *[2]string // nil
	try("a := *p", func() { a := *p; sink = a[0] })
	try("f(*p)", func() { func(a [2]int32) {}(*p) })
	try("iface = *p", func() { var i interface{} = *p; _ = i })
	try("*p = v", func() { *p = [2]int32{} })
	try("*q = v", func() { *q = [2]string{} })
	try("*p == v", func() { println(*p == [2]int32{}) })
	try("return *p", func() { _ = func() [2]int32 { return *p }() })
	try("p[:]", func() { s := p[:]; sink = int32(len(s)) })
	try("(*p)[:]", func() { s := (*p)[:]; sink = int32(len(s)) })
	try("q[:][0]", func() { s := q[:]; sink = int32(len(s[0])) })
	try("_ = *p", func() { _ = *p })
}
