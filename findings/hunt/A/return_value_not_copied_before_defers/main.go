package main

type P struct{ X int32 }
type A [2]int32

var g = P{1}
var ga = A{1, 1}

// "return v" copies v into the (unnamed) result before the deferred functions run.

func local() P {
	p := P{1}
	defer func() { p.X = 100 }()
	return p
}

func localArr() A {
	a := A{1, 1}
	defer func() { a[0] = 100 }()
	return a
}

func global() P {
	defer func() { g.X = 100 }()
	return g
}

func globalArr() A {
	defer func() { ga[0] = 100 }()
	return ga
}

func deref(p *P) P {
	defer func() { p.X = 100 }()
	return *p
}

func elem(s []P) P {
	defer func() { s[0].X = 100 }()
	return s[0]
}

func param(p P) P {
	defer func() { p.X = 100 }()
	return p
}

func two() (P, int32) {
	p := P{1}
	defer func() { p.X = 100 }()
	return p, 0
}

func main() {
	println("local", local().X)          // Go: 1
	println("localArr", localArr()[0])   // Go: 1
	println("global", global().X)        // Go: 1
	println("globalArr", globalArr()[0]) // Go: 1
	println("deref", deref(&P{1}).X)     // Go: 1
	println("elem", elem([]P{{1}}).X)    // Go: 1
	println("param", param(P{1}).X)      // Go: 1
	p, _ := two()
	println("two", p.X) // Go: 1
}
