package main

func inner(c chan int32) {
	defer func() {
		<-c // blocks while panicking
		println("inner defer done")
	}()
	panic("P")
}

func outer() (r int32) {
	c := make(chan int32)
	go func() { c <- 1 }()
	defer func() {
		println("outer recovered:", recover().(string))
		r = 7
	}()
	inner(c)
	println("BUG: outer resumed after the call that panicked")
	return 1
}

func main() {
	println("outer returned", outer())
}
