package main

type P struct{ X int32 }

func main() {
	ch := make(chan int32, 2)
	ch <- 7
	ch <- 9
	close(ch)
	var v int32
	for v = range ch {
	}
	// The range clause assigns only values actually received; after the loop v
	// still holds the last one.
	println("int", v) // Go: 9

	cp := make(chan P, 1)
	cp <- P{5}
	close(cp)
	var s struct{ P P }
	for s.P = range cp {
	}
	println("struct field", s.P.X) // Go: 5

	cs := make(chan string, 1)
	cs <- "last"
	close(cs)
	m := map[string]string{}
	for m["k"] = range cs {
	}
	println("map elem", m["k"]) // Go: last
}
