package main

type T struct{ A int32 }

func two() (int, int32) { return 1, 99 }

var trace string

func ti(s string, v int) int { trace += s; return v }

func main() {
	// Spec (Assignments): phase 1 evaluates the operands of index expressions and
	// pointer indirections on the left and the expressions on the right; phase 2
	// assigns left to right. So s[i] below must designate s[0].
	s := []int32{10, 20}
	i := 0
	i, s[i] = 1, 99
	println("a", i, s[0], s[1]) // Go: a 1 99 20

	p, q := &T{1}, &T{2}
	pp := p
	pp, pp.A = q, 100
	println("b", p.A, q.A) // Go: b 100 2

	m := map[int32]int32{}
	k := int32(0)
	k, m[k] = 1, 7
	println("c", m[0], m[1]) // Go: c 7 0

	s2 := []int32{10, 20}
	j := 0
	j, s2[j] = two()
	println("d", j, s2[0], s2[1]) // Go: d 1 99 20

	// function calls in index operands on the left come before those on the right
	s3 := []int{0, 0}
	s3[ti("a", 0)], s3[ti("b", 1)] = ti("c", 1), ti("d", 2)
	println("e", trace) // Go: e abcd
}
