module t

go 1.20
