package main

import "runtime"

func try(name string, f func()) {
	defer func() {
		r := recover()
		if r == nil {
			println(name, "no panic")
		} else if _, ok := r.(runtime.Error); ok {
			println(name, "runtime.Error")
		} else {
			println(name, "panic that is not a runtime.Error")
		}
	}()
	f()
}

type V struct {
	A int32
	B [2]int32
}

func main() {
	var pv *V
	var pa *[2]int32
	// Spec, Address operators: "If the evaluation of x would cause a run-time
	// panic, then the evaluation of &x does too."
	try("&pv.A", func() { p := &pv.A; _ = p })
	try("&pa[0]", func() { p := &pa[0]; _ = p })
	try("&pv.B[1]", func() { p := &pv.B[1]; _ = p })
	try("&(*pv)", func() { p := &(*pv); println(p == nil) })
}
