package main

type P struct{ X int32 }

func main() {
	arr := [3]P{{1}, {2}, {3}}
	var ptrs []*P
	var fs []func() int32
	for _, v := range arr {
		ptrs = append(ptrs, &v)
		fs = append(fs, func() int32 { return v.X })
	}
	// Go 1.20/1.21 (one variable per loop): true 3 3 3 | 3 3 3
	// Go 1.22+ (one variable per iteration): false 1 2 3 | 1 2 3
	// GopherJS:                              false 1 2 3 | 3 3 3  (neither)
	println(ptrs[0] == ptrs[1], ptrs[0].X, ptrs[1].X, ptrs[2].X, "|", fs[0](), fs[1](), fs[2]())

	// the same variable seen through a pointer taken in an earlier iteration
	var first *P
	for i, v := range arr {
		if i == 0 {
			first = &v
		}
		if i == 2 {
			println(first.X, v.X, first == &v) // Go 1.20: 3 3 true
		}
	}
}
