package main

var trace string

func v(s string, x int32) int32   { trace += s; return x }
func c(s string, x uint32) uint32 { trace += s; return x }
func u(s string, x uint32) uint32 { trace += s; return x }

func main() {
	// Operands are function calls: lexical left-to-right order, and both are called.
	r := v("x", 1) << c("y", 3)
	println(r, trace) // Go: 8 xy
	trace = ""
	r = v("x", 1) << c("y", 40)
	println(r, trace) // Go: 0 xy  (the left operand is still evaluated)
	trace = ""
	w := u("x", 8) >> c("y", 40)
	println(w, trace) // Go: 0 xy
	trace = ""
	var p *int32
	defer func() { println("recovered:", recover() != nil) }() // Go: true (nil dereference in the left operand)
	_ = *p << c("y", 40)
	println("not reached in Go")
}
