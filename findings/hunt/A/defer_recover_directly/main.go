package main

func f() {
	// recover is itself the deferred function here; it is not "called directly by
	// a deferred function", so it returns nil and the panic continues (gc, spec).
	defer recover()
	panic("p")
}

func main() {
	defer func() { println("panic reached main:", recover() != nil) }() // Go: true
	f()
	println("f returned normally") // Go: not printed
}
