package main

type P struct{ X, Y, Z int32 }

var trace string

func tr(s string, v int32) int32 { trace += s; return v }

func main() {
	// Spec (Order of evaluation): function calls happen in lexical left-to-right order.
	p := P{Z: tr("z", 1), Y: tr("y", 2), X: tr("x", 3)}
	println("struct", trace, p.X, p.Y, p.Z) // Go: zyx 3 2 1
	trace = ""
	a := [...]int32{2: tr("c", 1), 0: tr("a", 2), 1: tr("b", 3)}
	println("array", trace, a[0], a[1], a[2]) // Go: cab 2 3 1
	trace = ""
	s := []int32{1: tr("b", 1), 0: tr("a", 2)}
	println("slice", trace, s[0], s[1]) // Go: ba 2 1
}
