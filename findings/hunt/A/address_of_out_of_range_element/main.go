package main

import "runtime"

func try(name string, f func()) {
	defer func() {
		r := recover()
		if r == nil {
			println(name, "no panic")
		} else if _, ok := r.(runtime.Error); ok {
			println(name, "runtime.Error")
		} else {
			println(name, "panic that is not a runtime.Error")
		}
	}()
	f()
}

type P struct{ X int32 }

func main() {
	s := []int32{1, 2, 3}
	a := [3]int32{1, 2, 3}
	ps := []P{{1}}
	i := 3
	// &x[i] evaluates x[i]: an index out of range panics.
	try("&s[3]", func() { p := &s[i]; _ = p })
	try("*(&s[3])", func() { p := &s[i]; println(*p) })
	try("*(&s[3]) = 1", func() { p := &s[i]; *p = 1; println(len(s)) })
	try("&a[3]", func() { p := &a[i]; _ = p })
	try("&s[-1]", func() { j := -1; p := &s[j]; _ = p })
	try("&ps[3] (struct element)", func() { p := &ps[i]; _ = p })
	try("&ps[3].X", func() { p := &ps[i].X; _ = p })
}
