package main

type S struct{ A [3]int32 }

func main() {
	// Spec (For statements with range clause): "if at most one iteration variable
	// is present and len(x) is constant, the range expression is not evaluated."
	defer func() { println("recovered:", recover() != nil) }() // Go: false
	var p *S
	n := 0
	for i := range p.A {
		n += i
	}
	for range p.A {
		n++
	}
	println("n", n) // Go: n 6
}
