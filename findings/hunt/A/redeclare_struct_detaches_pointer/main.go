package main

type P struct{ X int32 }
type A2 [2]int32

func two() (P, A2) { return P{7}, A2{7, 7} }

func main() {
	// A short variable declaration that re-uses a variable of the same scope
	// ASSIGNS to it (spec: "redeclaration does not introduce a new variable; it
	// just assigns a new value to the original").
	v := P{1}
	p := &v
	v, a := two()
	println(p.X, v.X, p == &v, a[0]) // Go: 7 7 true 7

	w := P{1}
	q := &w
	w, ok := map[string]P{"k": {4}}["k"]
	println(q.X, w.X, ok) // Go: 4 4 true

	arr := A2{1, 1}
	pa := &arr
	arr, n := A2{2, 2}, 0
	println(pa[0], arr[0], n) // Go: 2 2 0

	// ...and later writes through the variable are not seen through the pointer
	w.X = 50
	println(q.X) // Go: 50
}
