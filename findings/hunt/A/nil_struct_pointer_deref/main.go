package main

import "runtime"

func try(name string, f func()) {
	defer func() {
		r := recover()
		if r == nil {
			println(name, "no panic")
		} else if _, ok := r.(runtime.Error); ok {
			println(name, "runtime.Error")
		} else {
			println(name, "panic that is not a runtime.Error")
		}
	}()
	f()
}

type P struct{ X int32 }
type E struct{}

// Go: *p panics inside safe, the deferred function recovers, safe returns P{}.
// GopherJS: `return *p` hands the nil pointer object to the caller; the panic is
// raised in the caller when it copies the result, outside safe's recover.
func safe(p *P) P {
	defer func() { recover() }()
	return *p
}

func deref(p *P) P { return *p }

func main() {
	var p *P
	var e *E
	try("safe(nil)", func() { r := safe(p); println(r.X) }) // Go: prints 0, no panic
	try("_ = deref(nil)", func() { _ = deref(p) })          // Go: runtime.Error
	try("_ = *p", func() { _ = *p })                        // Go: runtime.Error
	// a struct type without fields: no dereference of a nil pointer is noticed
	try("x := *e", func() { x := *e; _ = x })
	try("*e = E{}", func() { *e = E{} })
	try("*e == E{}", func() { println(*e == E{}) })
	try("any(*e)", func() { var i interface{} = *e; _ = i })
}
