package main

import "math"

//go:noinline
func i32(x int32) int32 { return x }

func main() {
	r := i32(-4) % i32(2) // integer 0; integers have no negative zero
	f := float64(r)
	println(r == 0, math.Signbit(f), 1/f > 0) // Go: true false true
	var i8 int8 = -6
	println(math.Signbit(float64(i8 % 3))) // Go: false
}
