package main

import "runtime"

func try(name string, f func()) {
	defer func() {
		r := recover()
		if r == nil {
			println(name, "no panic")
		} else if _, ok := r.(runtime.Error); ok {
			println(name, "runtime.Error")
		} else {
			println(name, "panic that is not a runtime.Error")
		}
	}()
	f()
}

type I interface{ M() int32 }

type E struct{}

func (E) M() int32 { return 1 }

type V struct{ A int32 }

func (v V) M() int32 { return 7 }

type N int32

func (n N) M() int32 { return 4 }

type W struct{ *V } // promotes V.M through a pointer

var sink int32

func main() {
	var pe *E
	var pv *V
	var pn *N
	var w W
	var ni I
	// calling a value-receiver method through a nil pointer dereferences nil
	try("pe.M()", func() { sink = pe.M() })
	try("I(pe).M()", func() { var i I = pe; sink = i.M() })
	try("I(pv).M()", func() { var i I = pv; sink = i.M() })
	try("I(w).M()", func() { var i I = w; sink = i.M() })
	try("(*V).M(pv)", func() { sink = (*V).M(pv) })
	// method values evaluate (and copy) the receiver when the value is created
	try("f := pe.M", func() { f := pe.M; _ = f })
	try("f := pn.M", func() { f := pn.M; _ = f })
	try("f := ni.M", func() { f := ni.M; _ = f })
}
