package compiler

// Demonstration for finding F10 (property C05): package-level variables whose initialiser panics when it runs (nil
// dereference, integer division by zero, failed type assertion, index out of range) are judged dead by the real selector
// when nothing refers to them.  Native Go runs every initialiser: the program below panics during initialisation, the
// GopherJS build with dead-code elimination prints "main".
//
//   cd /repo && go test -overlay <overlay mapping compiler/f10_demo_test.go to this file> -vet=off -run TestF10Demo ./compiler/

import (
	"testing"

	"github.com/gopherjs/gopherjs/internal/srctesting"
)

func TestF10Demo(t *testing.T) {
	src := `
		package main
		var p *int
		var zero = 0
		var i interface{} = "s"
		var s = []int{1}
		var deref = *p
		var quot = 1 / zero
		var asrt = i.(int)
		var idx = s[5]
		var call = f()
		func f() int { return 1 }
		func main() { println("main") }`
	sel := declSelection(t, []srctesting.Source{{Name: `main.go`, Contents: []byte(src)}}, nil)
	dead := 0
	for _, name := range []string{"deref", "quot", "asrt", "idx", "call"} {
		d := sel.FindDecl(`var:command-line-arguments.` + name)
		_, alive := sel.dceSelection[d]
		t.Logf("F10 %s alive=%v", name, alive)
		if !alive {
			dead++
		}
	}
	t.Logf("F10 dead=%d (the initialisers of deref, quot, asrt and idx panic in native Go)", dead)
}
