package build

// Demonstration for finding F6 (property C17): generic code in two packages that instantiates a generic of a third
// package with its own type parameter makes the numeric instance ids of the third package depend on Go's map
// iteration order (typeparams.Collector.Finish ranged over the package map).  Building the same program repeatedly
// gives different JavaScript.

import (
	"bytes"
	"fmt"
	"go/ast"
	"go/parser"
	"go/token"
	"go/types"
	"sort"
	"testing"

	"github.com/gopherjs/gopherjs/compiler"
	"github.com/gopherjs/gopherjs/compiler/sources"
)

var f6Pkgs = map[string]string{
	"example.com/lib": `package lib
		type Box[T any] struct{ V T }
		func (b Box[T]) Get() T { return b.V }
		func Make[T any](v T) Box[T] { return Box[T]{V: v} }`,
	"example.com/alpha": `package alpha
		import "example.com/lib"
		func A[T any](v T) T { return lib.Box[T]{V: v}.Get() }`,
	"example.com/beta": `package beta
		import "example.com/lib"
		func B[T any](v T) T { return lib.Box[T]{V: v}.Get() }`,
	"example.com/gamma": `package gamma
		import "example.com/lib"
		func C[T any](v T) T { return lib.Box[T]{V: v}.Get() }`,
	"example.com/app": `package main
		import (
			"example.com/alpha"
			"example.com/beta"
			"example.com/gamma"
		)
		func main() { println(alpha.A[int](1), beta.B[string]("x"), gamma.C[float64](1.5)) }`,
}

func f6Build(t *testing.T) string {
	t.Helper()
	s := &Session{options: &Options{}, sources: map[string]*sources.Sources{}, UpToDateArchives: map[string]*compiler.Archive{}}
	for path, src := range f6Pkgs {
		fset := token.NewFileSet()
		f, err := parser.ParseFile(fset, path+"/src.go", src, parser.ParseComments)
		if err != nil {
			t.Fatal(err)
		}
		s.sources[path] = &sources.Sources{ImportPath: path, Dir: path, Files: []*ast.File{f}, FileSet: fset}
	}
	importer := func(path, srcDir string) (*sources.Sources, error) {
		srcs, ok := s.sources[path]
		if !ok {
			return nil, fmt.Errorf("sources for %q not found", path)
		}
		return srcs, nil
	}
	tContext := types.NewContext()
	allSources := s.GetSortedSources()
	if err := compiler.PrepareAllSources(allSources, importer, tContext); err != nil {
		t.Fatal(err)
	}
	archives := []*compiler.Archive{}
	for _, srcs := range allSources {
		archive, err := compiler.Compile(srcs, tContext, false)
		if err != nil {
			t.Fatal(err)
		}
		archives = append(archives, archive)
	}
	sort.Slice(archives, func(i, j int) bool { return archives[i].ImportPath < archives[j].ImportPath })
	buf := &bytes.Buffer{}
	for _, archive := range archives {
		fmt.Fprintf(buf, "// package %s\n", archive.ImportPath)
		for _, d := range archive.Declarations {
			for _, code := range [][]byte{d.ImportCode, d.TypeDeclCode, d.ExportTypeCode, d.AnonTypeDeclCode, d.FuncDeclCode, d.ExportFuncCode, d.MethodListCode, d.TypeInitCode, d.InitCode} {
				buf.Write(code)
			}
		}
	}
	return buf.String()
}

func TestF6BuildsAreReproducible(t *testing.T) {
	outputs := map[string]int{}
	for i := 0; i < 60; i++ {
		outputs[f6Build(t)]++
	}
	if len(outputs) != 1 {
		counts := []int{}
		for _, n := range outputs {
			counts = append(counts, n)
		}
		t.Fatalf("C17 violated: 60 builds of the same program gave %d different outputs (counts %v)", len(outputs), counts)
	}
}

var _ = ast.NewIdent
