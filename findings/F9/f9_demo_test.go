package cache

// Demonstration for finding F9 (property C20): a corrupted cache file is loaded as a hit with wrong content, because
// the gzip checksum is never verified (gzip.Reader verifies it only when a Read reaches the end of the stream, and
// the gob decoder stops before that; gzip.Reader.Close does not verify anything).
//
// Run (nothing is written to the repository):
//   cd /repo && go test -overlay <overlay.json mapping build/cache/f9_demo_test.go to this file> -vet=off -run TestF9 ./build/cache

import (
	"os"
	"testing"
	"time"
)

type f9payload struct{ Data []byte }

func (p *f9payload) Write(encode func(any) error) error { return encode(p.Data) }
func (p *f9payload) Read(decode func(any) error) error  { return decode(&p.Data) }

func TestF9CorruptedEntryIsAccepted(t *testing.T) {
	cacheRoot = t.TempDir()
	bc := &BuildCache{GOOS: "js", GOARCH: "ecmascript", Version: "demo"}
	// incompressible-ish payload so that bit flips land in stored (literal) deflate blocks
	data := make([]byte, 4096)
	x := uint32(12345)
	for i := range data {
		x = x*1664525 + 1013904223
		data[i] = byte(x >> 24)
	}
	now := time.Now()
	if !bc.Store(&f9payload{Data: data}, "example.com/p", now) {
		t.Fatal("store failed")
	}
	path := cachedPath(bc.packageKey("example.com/p"))
	orig, err := os.ReadFile(path)
	if err != nil {
		t.Fatal(err)
	}
	accepted, wrong := 0, 0
	for bit := 0; bit < len(orig)*8; bit += 7 {
		mut := append([]byte{}, orig...)
		mut[bit/8] ^= 1 << (bit % 8)
		if err := os.WriteFile(path, mut, 0o600); err != nil {
			t.Fatal(err)
		}
		got := &f9payload{}
		if bc.Load(got, "example.com/p", now.Add(-time.Hour)) {
			accepted++
			if string(got.Data) != string(data) {
				wrong++
			}
		}
	}
	t.Logf("single-bit corruptions accepted as cache hits: %d, of which with wrong content: %d", accepted, wrong)
	if wrong > 0 {
		t.Fatalf("C20 violated: %d corrupted cache files were returned as valid entries with different content", wrong)
	}
}
