package build

// Demonstration for finding F5 (property C12): overriding one constant of a grouped const declaration that uses iota
// (or implicit repetition) removes its spec, so every later constant of the group silently changes its value.
//
//   cd /repo && go test -overlay <overlay mapping build/f5_demo_test.go to this file> -vet=off -run TestF5Demo -v ./build/

import (
	"bytes"
	"go/ast"
	"go/parser"
	"go/printer"
	"go/token"
	"go/types"
	"testing"
)

func TestF5Demo(t *testing.T) {
	src := `package p
const (
	A = iota
	B
	C
)
const (
	X = iota * 10
	Y = iota * 100
	Z
)
`
	val := func(file *ast.File, fset *token.FileSet, name string) string {
		conf := types.Config{}
		pkg, err := conf.Check("p", fset, []*ast.File{file}, nil)
		if err != nil {
			t.Fatal(err)
		}
		return pkg.Scope().Lookup(name).(*types.Const).Val().String()
	}
	parse := func() (*ast.File, *token.FileSet) {
		fset := token.NewFileSet()
		f, err := parser.ParseFile(fset, "p.go", src, parser.ParseComments)
		if err != nil {
			t.Fatal(err)
		}
		return f, fset
	}
	orig, fs0 := parse()
	t.Logf("F5 original: C=%s Z=%s", val(orig, fs0, "C"), val(orig, fs0, "Z"))
	file, fset := parse()
	augmentOriginalFile(file, map[string]overrideInfo{"B": {}, "Y": {}})
	buf := &bytes.Buffer{}
	printer.Fprint(buf, fset, file)
	t.Logf("F5 merged file:\n%s", buf.String())
	t.Logf("F5 merged: C=%s Z=%s (the overlay replaces B and Y only)", val(file, fset, "C"), val(file, fset, "Z"))
}
