module github.com/gopherjs/gopherjs

go 1.20
