// Package st is the engine self-test corpus: Ok_* functions satisfy their contracts (every obligation must be
// discharged); Bad_* functions violate them, or the contract is wrong (at least one obligation must fail, or the function
// must be reported undecided -- never "all discharged").
package st

type T struct {
	x  int
	xs []int
	m  map[string]int
	nx *T
}

// ---- range over a slice reads live elements
func Bad_RangeLive(s []int) int {
	r := 0
	for i, v := range s {
		if i == 0 {
			s[1] = 7
		}
		if i == 1 {
			r = v
		}
	}
	return r
}

func Ok_RangeLive(s []int) int {
	r := 0
	for i, v := range s {
		if i == 0 {
			s[1] = 7
		}
		if i == 1 {
			r = v
		}
	}
	return r
}

// ---- element writes to a slice held in the heap, inside a loop with an invariant
func Bad_HeapElems(t *T) {
	for i := range t.xs {
		t.xs[i] = 0
	}
}

func Ok_HeapElems(t *T) {
	for i := range t.xs {
		t.xs[i] = 0
	}
}

// ---- a new object is distinct from every object that existed
func Ok_FreshDistinct(q *T) *T {
	p := &T{}
	p.x = q.x + 1
	return p
}

func Bad_FreshAlias(q *T) *T {
	p := q
	p.x = q.x + 1
	return p
}

// ---- callee that writes the heap
func bump(t *T) {
	t.x++
}

func Ok_CallFrame(t *T) {
	bump(t)
}

func bumpNoFrame(t *T) {
	t.x++
}

func Bad_CallNoFrame(t *T) int {
	bumpNoFrame(t)
	return t.x
}

// ---- callee-local names in a callee contract must not turn into assumptions
func pick(a, b int) int {
	m := a
	if b > a {
		m = b
	}
	return m
}

func Bad_CalleeLocal(a, b int) int {
	return pick(a, b)
}

// ---- nil map reads, and writes
func Ok_NilMapRead(t *T) int {
	return t.m["a"]
}

func Bad_NilMapWrite(t *T) {
	t.m["a"] = 1
}

// ---- deferred call changes a named result
func Ok_DeferResult(a int) (r int) {
	defer func() { r++ }()
	return a
}

func Bad_DeferResult(a int) (r int) {
	defer func() { r++ }()
	return a
}

// ---- integer overflow in the compiler's own arithmetic (64-bit int)
func Bad_Overflow(a int) int {
	return a + 1
}

func Ok_Overflow(a int) int {
	if a < 1000 {
		return a + 1
	}
	return a
}

// ---- append may or may not share the array
func Bad_AppendAlias(s []int) []int {
	t := append(s, 1)
	t[0] = 9
	return t
}

// ---- loops: invariant that is not inductive
func Bad_Invariant(n int) int {
	s := 0
	for i := 0; i < n; i++ {
		s += 2
	}
	return s
}

func Ok_Invariant(n int) int {
	s := 0
	for i := 0; i < n; i++ {
		s += 2
	}
	return s
}

// ---- linked objects: write through one pointer is visible through an alias
func Bad_AliasWrite(a, b *T) int {
	a.x = 1
	b.x = 2
	return a.x
}

func Ok_AliasWrite(a, b *T) int {
	a.x = 1
	b.x = 2
	return a.x
}

// ---- ghost counter in a loop
func tick() {}

func Ok_GhostLoop(n int) {
	for i := 0; i < n; i++ {
		tick()
	}
}

func Bad_GhostLoop(n int) {
	for i := 0; i < n; i++ {
		tick()
	}
	tick()
}

// ---- type switch on interface values
func Ok_TypeSwitch(v any) int {
	switch x := v.(type) {
	case int:
		return x
	case *T:
		if x == nil {
			return -1
		}
		return x.x
	}
	return 0
}

// Gap (documented in DESIGN.md, G0): an interface value holding a typed nil pointer is identified with the nil
// interface, so the missing nil check below is not reported.
func Gap_TypeSwitch(v any) int {
	switch x := v.(type) {
	case *T:
		return x.x
	}
	return 0
}

// ---- strings
func Ok_StrIndex(s string) byte {
	if len(s) > 2 {
		return s[2]
	}
	return 0
}

func Bad_StrIndex(s string) byte {
	if len(s) >= 2 {
		return s[2]
	}
	return 0
}

// ---- a function literal handed to a callee may change the caller's variables
func runIt(f func()) { f() }

func Bad_ClosureArg() int {
	x := 1
	runIt(func() { x = 2 })
	return x
}

func Ok_ClosureArg() int {
	x := 1
	y := 5
	runIt(func() { x = 2 })
	return y
}

// ---- a callee that rewrites the elements of a slice argument (also one that lives in a field)
func zeroAll(s []int) []int {
	for i := range s {
		s[i] = 0
	}
	return s
}

func Ok_CalleeElems(t *T) int {
	t.xs = zeroAll(t.xs)
	if len(t.xs) > 0 {
		return t.xs[0]
	}
	return 0
}

func Bad_CalleeElems(t *T) int {
	if len(t.xs) == 0 {
		return 0
	}
	v := t.xs[0]
	zeroAll(t.xs)
	return t.xs[0] - v
}
