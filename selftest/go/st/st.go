// Package st is the engine self-test corpus: Ok_* functions satisfy their contracts (every obligation must be
// discharged); Bad_* functions violate them, or the contract is wrong (at least one obligation must fail, or the function
// must be reported undecided -- never "all discharged").
package st

type T struct {
	x  int
	xs []int
	m  map[string]int
	nx *T
}

// ---- range over a slice reads live elements
func Bad_RangeLive(s []int) int {
	r := 0
	for i, v := range s {
		if i == 0 {
			s[1] = 7
		}
		if i == 1 {
			r = v
		}
	}
	return r
}

func Ok_RangeLive(s []int) int {
	r := 0
	for i, v := range s {
		if i == 0 {
			s[1] = 7
		}
		if i == 1 {
			r = v
		}
	}
	return r
}

// ---- element writes to a slice held in the heap, inside a loop with an invariant
func Bad_HeapElems(t *T) {
	for i := range t.xs {
		t.xs[i] = 0
	}
}

func Ok_HeapElems(t *T) {
	for i := range t.xs {
		t.xs[i] = 0
	}
}

// ---- a new object is distinct from every object that existed
func Ok_FreshDistinct(q *T) *T {
	p := &T{}
	p.x = q.x + 1
	return p
}

func Bad_FreshAlias(q *T) *T {
	p := q
	p.x = q.x + 1
	return p
}

// ---- callee that writes the heap
func bump(t *T) {
	t.x++
}

func Ok_CallFrame(t *T) {
	bump(t)
}

func bumpNoFrame(t *T) {
	t.x++
}

func Bad_CallNoFrame(t *T) int {
	bumpNoFrame(t)
	return t.x
}

// ---- callee-local names in a callee contract must not turn into assumptions
func pick(a, b int) int {
	m := a
	if b > a {
		m = b
	}
	return m
}

func Bad_CalleeLocal(a, b int) int {
	return pick(a, b)
}

// ---- nil map reads, and writes
func Ok_NilMapRead(t *T) int {
	return t.m["a"]
}

func Bad_NilMapWrite(t *T) {
	t.m["a"] = 1
}

// ---- deferred call changes a named result
func Ok_DeferResult(a int) (r int) {
	defer func() { r++ }()
	return a
}

func Bad_DeferResult(a int) (r int) {
	defer func() { r++ }()
	return a
}

// ---- integer overflow in the compiler's own arithmetic (64-bit int)
func Bad_Overflow(a int) int {
	return a + 1
}

func Ok_Overflow(a int) int {
	if a < 1000 {
		return a + 1
	}
	return a
}

// ---- append may or may not share the array
func Bad_AppendAlias(s []int) []int {
	t := append(s, 1)
	t[0] = 9
	return t
}

// ---- loops: invariant that is not inductive
func Bad_Invariant(n int) int {
	s := 0
	for i := 0; i < n; i++ {
		s += 2
	}
	return s
}

func Ok_Invariant(n int) int {
	s := 0
	for i := 0; i < n; i++ {
		s += 2
	}
	return s
}

// ---- linked objects: write through one pointer is visible through an alias
func Bad_AliasWrite(a, b *T) int {
	a.x = 1
	b.x = 2
	return a.x
}

func Ok_AliasWrite(a, b *T) int {
	a.x = 1
	b.x = 2
	return a.x
}

// ---- ghost counter in a loop
func tick() {}

func Ok_GhostLoop(n int) {
	for i := 0; i < n; i++ {
		tick()
	}
}

func Bad_GhostLoop(n int) {
	for i := 0; i < n; i++ {
		tick()
	}
	tick()
}

// ---- type switch on interface values
func Ok_TypeSwitch(v any) int {
	switch x := v.(type) {
	case int:
		return x
	case *T:
		if x == nil {
			return -1
		}
		return x.x
	}
	return 0
}

// Gap (documented in DESIGN.md, G0): an interface value holding a typed nil pointer is identified with the nil
// interface, so the missing nil check below is not reported.
func Gap_TypeSwitch(v any) int {
	switch x := v.(type) {
	case *T:
		return x.x
	}
	return 0
}

// ---- strings
func Ok_StrIndex(s string) byte {
	if len(s) > 2 {
		return s[2]
	}
	return 0
}

func Bad_StrIndex(s string) byte {
	if len(s) >= 2 {
		return s[2]
	}
	return 0
}

// ---- a function literal handed to a callee may change the caller's variables
func runIt(f func()) { f() }

func Bad_ClosureArg() int {
	x := 1
	runIt(func() { x = 2 })
	return x
}

func Ok_ClosureArg() int {
	x := 1
	y := 5
	runIt(func() { x = 2 })
	_ = x
	return y
}

// ---- a callee that rewrites the elements of a slice argument (also one that lives in a field)
func zeroAll(s []int) []int {
	for i := range s {
		s[i] = 0
	}
	return s
}

func Ok_CalleeElems(t *T) int {
	t.xs = zeroAll(t.xs)
	if len(t.xs) > 0 {
		return t.xs[0]
	}
	return 0
}

func Bad_CalleeElems(t *T) int {
	if len(t.xs) == 0 {
		return 0
	}
	v := t.xs[0]
	zeroAll(t.xs)
	return t.xs[0] - v
}

// ---- delete in a loop / in a literal argument changes the map
func Bad_DeleteLoop(m map[string]int, ks []string) bool {
	for _, k := range ks {
		delete(m, k)
	}
	_, ok := m["a"]
	return ok
}

func Bad_DeleteClosure(m map[string]int) bool {
	m["a"] = 1
	runIt(func() { delete(m, "a") })
	_, ok := m["a"]
	return ok
}

// ---- value semantics of structs and arrays, reference semantics of slices and maps
type P struct{ x, y int }

func Ok_StructCopy(p *P) int {
	a := *p
	a.x = 7
	return p.x
}

func Bad_StructCopy(p *P) int {
	a := p
	a.x = 7
	return p.x
}

func Ok_ArrayCopy(a [3]int) int {
	b := a
	b[0] = 9
	return a[0]
}

func Bad_SliceAlias(s []int) int {
	t := s[1:]
	t[0] = 5
	return s[1]
}

func Ok_SliceAlias(s []int) int {
	t := s[1:]
	t[0] = 5
	return s[1]
}

func Bad_MapAlias(m map[string]int) int {
	m2 := m
	m2["a"] = 1
	return m["a"]
}

// ---- closures capture variables by reference
func Ok_ClosureRef() int {
	x := 1
	f := func() { x++ }
	f()
	f()
	return x
}

func Bad_ClosureRef() int {
	x := 1
	f := func() { x++ }
	f()
	return x
}

// ---- swap, conversions, unsigned wrap-around, shifts
func Ok_Swap(a, b int) (int, int) {
	a, b = b, a
	return a, b
}

func Ok_Conv8(x int) int8 {
	return int8(x)
}

func Bad_Conv8(x int) int8 {
	return int8(x)
}

func Ok_UnsignedSub(a, b uint32) uint32 {
	return a - b
}

func Bad_UnsignedSub(a, b uint32) uint32 {
	return a - b
}

func Bad_DivZero(a, b int) int {
	return a / b
}

func Ok_DivZero(a, b int) int {
	if b == 0 {
		return 0
	}
	return a / b
}

// ---- short-circuit evaluation
func Ok_ShortCircuit(p *P) bool {
	return p != nil && p.x > 0
}

func Bad_ShortCircuit(p *P) bool {
	return p.x > 0 && p != nil
}

// ---- deferred calls run in reverse order
func Ok_DeferOrder() (r int) {
	defer func() { r = r * 2 }()
	defer func() { r = r + 3 }()
	return 1
}

func Bad_DeferOrder() (r int) {
	defer func() { r = r * 2 }()
	defer func() { r = r + 3 }()
	return 1
}

// ---- labelled continue / break
func Ok_Labelled(n int) int {
	c := 0
outer:
	for i := 0; i < n; i++ {
		for j := 0; j < 2; j++ {
			if j == 1 {
				continue outer
			}
			c++
		}
	}
	return c
}

// ---- switch with fallthrough
// Gap: fallthrough is outside G0 (functions using it are reported undecided).
func Gap_Fallthrough(x int) int {
	r := 0
	switch x {
	case 1:
		r += 1
		fallthrough
	case 2:
		r += 2
	default:
		r += 10
	}
	return r
}

func Gap_Fallthrough2(x int) int {
	r := 0
	switch x {
	case 1:
		r += 1
		fallthrough
	case 2:
		r += 2
	default:
		r += 10
	}
	return r
}

// ---- second batch: receivers, element copies, shadowing, division, comma-ok, copy
func (p P) incVal()  { p.x++ }
func (p *P) incPtr() { p.x++ }

func Ok_ValueReceiver(p *P) int {
	p.incVal()
	return p.x
}

func Bad_PtrReceiver(p *P) int {
	p.incPtr()
	return p.x
}

func Ok_ElemCopy(s []P) int {
	e := s[0]
	e.x = 99
	return s[0].x
}

func Bad_ElemWrite(s []P) int {
	s[0].x = 99
	return s[0].x
}

func Ok_RangeValueCopy(s []P) int {
	for _, e := range s {
		e.x = 5
	}
	if len(s) > 0 {
		return s[0].x
	}
	return 0
}

func Ok_Shadow(a int) int {
	x := a
	if a > 0 {
		x := 5
		_ = x
	}
	return x
}

func Bad_Shadow(a int) int {
	x := a
	if a > 0 {
		x = 5
	}
	return x
}

func Ok_DivTrunc(a int) (int, int) {
	return a / 2, a % 2
}

func Bad_DivTrunc(a int) int {
	return a / 2
}

func Ok_CommaOk(m map[string]int) int {
	if v, ok := m["k"]; ok {
		return v
	}
	return -1
}

func Bad_CommaOk(m map[string]int) int {
	v := m["k"]
	return v
}

func Ok_Copy(d, s []int) int {
	n := copy(d, s)
	return n
}

func Bad_Copy(d, s []int) int {
	copy(d, s)
	return d[0]
}

func Ok_StrConcat(a, b string) int {
	c := a + b
	return len(c)
}

func Bad_StrConcat(a, b string) byte {
	c := a + b
	return c[0]
}

type Inner struct{ v int }
type Outer struct {
	Inner
	w int
}

func Ok_Embedded(o *Outer) int {
	o.v = 3
	return o.Inner.v
}

func Bad_Embedded(o *Outer) int {
	o.v = 3
	return o.w
}

// ---- vacuity: a contradictory assumed contract must not make everything "proved"
func liar() {}

func Bad_Vacuous(a int) int {
	liar()
	return a + 1
}

func Bad_VacuousLoop(n int) int {
	s := 0
	for i := 0; i < n; i++ {
		liar()
		s += 3
	}
	return s
}

// TwoPre has two requires clauses; Bad_SecondPre violates only the second one, Ok_SecondPre satisfies both.  (Every
// requires clause of a callee is an obligation of its own at a call site.)
func TwoPre(a, b int) int { return a + b }

func Bad_SecondPre(x int) int { return TwoPre(1, x) }

func Ok_SecondPre(x int) int {
	if x < 0 || x > 10 {
		return 0
	}
	return TwoPre(1, x)
}

// Two index expressions on one source line: each is a check of its own (Bad_: only the first index is in range).
func Bad_TwoIndexLine(a []int, i, j int) int { return a[i] + a[j] }

func Ok_TwoIndexLine(a []int, i, j int) int { return a[i] + a[j] }
