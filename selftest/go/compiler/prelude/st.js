// JS half of the engine self-test corpus: $ok_* satisfy their contracts, $bad_* do not.
var $ok_add32 = (x, y) => { return (x + y) >> 0; };
var $bad_add32 = (x, y) => { return x + y; };
var $ok_mulsmall = (x, y) => { return x * y; };
var $bad_mulexact = (x, y) => { return x * y; };
var $ok_sum = (a, n) => {
    var s = 0;
    for (var i = 0; i < n; i++) { s = s + a[i]; }
    return s;
};
var $bad_sum = (a, n) => {
    var s = 0;
    for (var i = 0; i <= n; i++) { s = s + a[i]; }
    return s;
};
var $ok_fill = (a, n, v) => {
    for (var i = 0; i < n; i++) { a[i] = v; }
};
var $bad_fill = (a, n, v) => {
    for (var i = 1; i < n; i++) { a[i] = v; }
};
var $ok_check = (i, n) => {
    if (i < 0 || i >= n) { $throwRuntimeError("index out of range"); }
    return i;
};
var $bad_check = (i, n) => {
    if (i < 0 || i > n) { $throwRuntimeError("index out of range"); }
    return i;
};
var $ok_shr = (x) => { return x >>> 0; };
var $bad_shr = (x) => { return x >>> 0; };
var $ok_div = (x, y) => { return Math.floor(x / y); };
var $ok_setlen = (s) => { s.$length = 0; return s; };
var $bad_setlen = (s) => { s.$length = 0; return s; };
var $ok_flag = (f) => { if (!f.typ.comparable) { typ.comparable = false; } };
var $bad_flag = (f) => { if (f.name !== "_" && !f.typ.comparable) { typ.comparable = false; } };
var $ok_reccopy = (dst, src) => {
    for (var i = 0; i < fields.length; i++) { var f = fields[i]; dst[f.prop] = src[f.prop]; }
};
var $bad_reccopy = (dst, src) => {
    for (var i = 1; i < fields.length; i++) { var f = fields[i]; dst[f.prop] = src[f.prop]; }
};
var $ok_tw = (c, v) => { if (c.$closed) { $throwRuntimeError("x"); } $curGoroutine.panicStack.push(v); return v; };
var $bad_tw = (c, v) => { if (c.$closed && v > 0) { $throwRuntimeError("x"); } $curGoroutine.panicStack.push(v); return v; };
