//go:build verif

package verifspec

//@ func st.Bad_RangeLive
//@ property S01
//@   requires len(s) == 2
//@   loop 1 unroll 3
//@   ensures result == old(s)[1]
//@ func st.Ok_RangeLive
//@ property S01
//@   requires len(s) == 2
//@   loop 1 unroll 3
//@   ensures result == 7

//@ func st.Bad_HeapElems
//@ property S01
//@   requires t != nil
//@   loop 1 invariant 0 <= $i1 && $i1 <= len(t.xs)
//@   ensures forall(k, 0, len(t.xs), t.xs[k] == old(t.xs)[k])
//@ func st.Ok_HeapElems
//@ property S01
//@   requires t != nil
//@   loop 1 invariant 0 <= $i1 && $i1 <= len(t.xs) && len(t.xs) == len(old(t.xs)) && forall(k, 0, $i1, t.xs[k] == 0)
//@   ensures forall(k, 0, len(t.xs), t.xs[k] == 0)

//@ func st.Ok_FreshDistinct
//@ property S01
//@   requires q != nil && q.x < 1000 && q.x > -1000
//@   ensures result != nil && result.x == q.x + 1 && q.x == old(q.x) && newobj(result)
//@ func st.Bad_FreshAlias
//@ property S01
//@   requires q != nil && q.x < 1000 && q.x > -1000
//@   ensures q.x == old(q.x)

//@ func st.bump
//@ property S01
//@   requires t != nil && t.x < 1000 && t.x > -1000
//@   assigns t.x
//@   ensures t.x == old(t.x) + 1
//@ func st.Ok_CallFrame
//@ property S01
//@   requires t != nil && t.x == 5
//@   ensures t.x == 6
//@ func st.bumpNoFrame
//@ property S01
//@   requires t != nil && t.x < 1000 && t.x > -1000
//@   ensures t.x == old(t.x) + 1
//@ func st.Bad_CallNoFrame
//@ property S01
//@   requires t != nil && t.x == 5
//@   ensures result == 7

//@ func st.pick
//@ property S01
//@   ensures result >= a && result >= b
//@   ensures b > a ==> m == b && result == b
//@ func st.Bad_CalleeLocal
//@ property S01
//@   ensures result == a

//@ func st.Ok_NilMapRead
//@ property S01
//@   requires t != nil
//@   ensures isnil(t.m) ==> result == 0
//@ func st.Bad_NilMapWrite
//@ property S01
//@   requires t != nil

//@ func st.Ok_DeferResult
//@ property S01
//@   requires a < 1000 && a > -1000
//@   ensures r == a + 1
//@ func st.Bad_DeferResult
//@ property S01
//@   requires a < 1000 && a > -1000
//@   ensures r == a

//@ func st.Bad_Overflow
//@ property S01
//@   ensures result == a + 1
//@ func st.Ok_Overflow
//@ property S01
//@   ensures result >= a

//@ func st.Bad_AppendAlias
//@ property S01
//@   requires len(s) > 0
//@   ensures s[0] == old(s)[0]

//@ func st.Bad_Invariant
//@ property S01
//@   requires n >= 0 && n < 1000
//@   loop 1 invariant s == 2 * i
//@   ensures result == 2 * n
//@ func st.Ok_Invariant
//@ property S01
//@   requires n >= 0 && n < 1000
//@   loop 1 invariant 0 <= i && i <= n && s == 2 * i
//@   ensures result == 2 * n

//@ func st.Bad_AliasWrite
//@ property S01
//@   requires a != nil && b != nil
//@   ensures result == 1
//@ func st.Ok_AliasWrite
//@ property S01
//@   requires a != nil && b != nil
//@   ensures a != b ==> result == 1
//@   ensures a == b ==> result == 2

//@ extern st.tick
//@   ghost ticks = ticks + 1
//@ func st.Ok_GhostLoop
//@ property S01
//@   requires n >= 0 && n < 1000
//@   ghost ticks = 0
//@   loop 1 invariant 0 <= i && i <= n && ticks == i
//@   ensures ticks == n
//@ func st.Bad_GhostLoop
//@ property S01
//@   requires n >= 0 && n < 1000
//@   ghost ticks = 0
//@   loop 1 invariant 0 <= i && i <= n
//@   ensures ticks == 1

//@ func st.Ok_TypeSwitch
//@ property S01
//@ func st.Gap_TypeSwitch
//@ property S01

//@ func st.Ok_StrIndex
//@ property S01
//@   ensures len(s) > 2 ==> result == s[2]
//@ func st.Bad_StrIndex
//@ property S01

//@ extern st.runIt
//@   param f
//@ func st.Bad_ClosureArg
//@ property S01
//@   ensures result == 1
//@ func st.Ok_ClosureArg
//@ property S01
//@   ensures result == 5

//@ func st.zeroAll
//@ property S01
//@   assigns elems(s)
//@   loop 1 invariant 0 <= $i1 && $i1 <= len(s) && len(s) == len(old(s)) && forall(k, 0, $i1, s[k] == 0)
//@   ensures len(result) == len(s) && prefixof(result, s) && forall(k, 0, len(result), result[k] == 0)
//@ func st.Ok_CalleeElems
//@ property S01
//@   requires t != nil
//@   ensures result == 0
//@ func st.Bad_CalleeElems
//@ property S01
//@   requires t != nil
//@   ensures result == 0

//@ func st.Bad_DeleteLoop
//@ property S01
//@   requires !isnil(m) && has(m, "a")
//@   loop 1 invariant 0 <= $i1 && $i1 <= len(ks)
//@   ensures result
//@ func st.Bad_DeleteClosure
//@ property S01
//@   requires !isnil(m)
//@   ensures result

//@ func st.Ok_StructCopy
//@ property S01
//@   requires p != nil
//@   ensures result == old(p.x) && p.x == old(p.x)
//@ func st.Bad_StructCopy
//@ property S01
//@   requires p != nil
//@   ensures result == old(p.x)
//@ func st.Ok_ArrayCopy
//@ property S01
//@   ensures result == a[0]
//@ func st.Bad_SliceAlias
//@ property S01
//@   requires len(s) >= 2
//@   ensures result == old(s)[1]
//@ func st.Ok_SliceAlias
//@ property S01
//@   requires len(s) >= 2
//@   ensures result == 5
//@ func st.Bad_MapAlias
//@ property S01
//@   requires !isnil(m) && !has(m, "a")
//@   ensures result == 0
//@ func st.Ok_ClosureRef
//@ property S01
//@   ensures result == 3
//@ func st.Bad_ClosureRef
//@ property S01
//@   ensures result == 1
//@ func st.Ok_Swap
//@ property S01
//@   results x y
//@   ensures x == old(b) && y == old(a)
//@ func st.Ok_Conv8
//@ property S01
//@   ensures result >= -128 && result <= 127 && (result - x) % 256 == 0
//@ func st.Bad_Conv8
//@ property S01
//@   ensures result == x
//@ func st.Ok_UnsignedSub
//@ property S01
//@   ensures result >= 0 && result <= 4294967295 && (result - (a - b)) % 4294967296 == 0
//@ func st.Bad_UnsignedSub
//@ property S01
//@   ensures result == a - b
//@ func st.Bad_DivZero
//@ property S01
//@   requires a >= 0 && a < 100
//@ func st.Ok_DivZero
//@ property S01
//@   requires a >= 0 && a < 100 && b >= 0
//@ func st.Ok_ShortCircuit
//@ property S01
//@   recv_may_be_nil
//@ func st.Bad_ShortCircuit
//@ property S01
//@ func st.Ok_DeferOrder
//@ property S01
//@   ensures r == 8
//@ func st.Bad_DeferOrder
//@ property S01
//@   ensures r == 5
//@ func st.Ok_Labelled
//@ property S01
//@   requires n >= 0 && n < 1000
//@   loop 1 invariant 0 <= i && i <= n && c == i
//@   loop 2 unroll 3
//@   ensures result == n
//@ func st.Gap_Fallthrough
//@ property S01
//@   ensures x == 1 ==> result == 3
//@   ensures x == 2 ==> result == 2
//@   ensures x != 1 && x != 2 ==> result == 10
//@ func st.Gap_Fallthrough2
//@ property S01
//@   ensures x == 1 ==> result == 1

//@ func st.P.incVal
//@ property S01
//@ func st.P.incPtr
//@ property S01
//@   requires p.x < 1000 && p.x > -1000
//@   assigns p.x
//@   ensures p.x == old(p.x) + 1
//@ func st.Ok_ValueReceiver
//@ property S01
//@   requires p != nil
//@   ensures result == old(p.x)
//@ func st.Bad_PtrReceiver
//@ property S01
//@   requires p != nil && p.x == 1
//@   ensures result == 1
//@ func st.Ok_ElemCopy
//@ property S01
//@   requires len(s) > 0
//@   ensures result == old(s)[0].x
//@ func st.Bad_ElemWrite
//@ property S01
//@   requires len(s) > 0
//@   ensures result == old(s)[0].x
//@ func st.Ok_RangeValueCopy
//@ property S01
//@   loop 1 invariant 0 <= $i1 && $i1 <= len(s)
//@   ensures len(s) > 0 ==> result == old(s)[0].x
//@ func st.Ok_Shadow
//@ property S01
//@   ensures result == a
//@ func st.Bad_Shadow
//@ property S01
//@   ensures result == a
//@ func st.Ok_DivTrunc
//@ property S01
//@   results q r
//@   ensures q * 2 + r == a && (a >= 0 ==> r >= 0) && (a < 0 ==> r <= 0)
//@ func st.Bad_DivTrunc
//@ property S01
//@   ensures result * 2 <= a
//@ func st.Ok_CommaOk
//@ property S01
//@   ensures !has(m, "k") ==> result == -1
//@ func st.Bad_CommaOk
//@ property S01
//@   ensures !has(m, "k") ==> result == -1
//@ func st.Ok_Copy
//@ property S01
//@   ensures result == min(len(d), len(s))
//@ func st.Bad_Copy
//@ property S01
//@   requires len(d) > 0 && len(s) > 0
//@   ensures result == old(d)[0]
//@ func st.Ok_StrConcat
//@ property S01
//@   requires len(a) < 1000 && len(b) < 1000
//@   ensures result == len(a) + len(b)
//@ func st.Bad_StrConcat
//@ property S01
//@   requires len(a) > 0 && len(b) > 0
//@   ensures result == b[0]
//@ func st.Ok_Embedded
//@ property S01
//@   requires o != nil
//@   ensures result == 3
//@ func st.Bad_Embedded
//@ property S01
//@   requires o != nil
//@   ensures result == 3

//@ extern st.liar
//@   ensures 0 == 1
//@ func st.Bad_Vacuous
//@ property S01
//@   requires a < 1000 && a > -1000
//@   ensures result == a
//@ func st.Bad_VacuousLoop
//@ property S01
//@   requires n > 0 && n < 1000
//@   loop 1 invariant 0 <= i && i <= n && s == 2 * i
//@   ensures result == 2 * n

//@ func st.TwoPre
//@ property S01
//@   requires 0 <= a && a <= 10
//@   requires 0 <= b && b <= 10
//@   ensures result == a + b
//@ func st.Bad_SecondPre
//@ property S01
//@   ensures true
//@ func st.Ok_SecondPre
//@ property S01
//@   ensures result >= 0

//@ func st.Bad_TwoIndexLine
//@ property S01
//@   requires 0 <= i && i < len(a)
//@   ensures true
//@ func st.Ok_TwoIndexLine
//@ property S01
//@   requires 0 <= i && i < len(a) && 0 <= j && j < len(a)
//@   requires a[i] >= 0 && a[i] <= 1000 && a[j] >= 0 && a[j] <= 1000
//@   ensures result >= 0
