//go:build verif

package verifspec

//@ js st.js $ok_add32
//@ property S01
//@   param x: int32, y: int32
//@   ensures result >= -2147483648 && result <= 2147483647 && (result - (x + y)) % 4294967296 == 0
//@ js st.js $bad_add32
//@ property S01
//@   param x: int32, y: int32
//@   ensures result >= -2147483648 && result <= 2147483647
//@ js st.js $ok_mulsmall
//@ property S01
//@   param x: byte, y: int32
//@   ensures result == prod(x, y)
//@ js st.js $bad_mulexact
//@ property S01
//@   param x: int32, y: uint32
//@   ensures result == prod(x, y)
//@ js st.js $ok_fill
//@ property S01
//@   param a: u8arr, n: nat, v: byte
//@   requires n <= len(a)
//@   assigns arr(a)
//@   loop 1 invariant 0 <= i && i <= n && forall(k, 0, i, a[k] == v)
//@   ensures forall(k, 0, n, a[k] == v)
//@ js st.js $bad_fill
//@ property S01
//@   param a: u8arr, n: nat, v: byte
//@   requires n <= len(a)
//@   assigns arr(a)
//@   loop 1 invariant 1 <= i && (i <= n || n == 0) && forall(k, 1, i, a[k] == v)
//@   ensures forall(k, 0, n, a[k] == v)
//@ js st.js $ok_check
//@ property S01
//@   param i: int32, n: int32
//@   throws_if i < 0 || i >= n
//@   ensures result == i
//@ js st.js $bad_check
//@ property S01
//@   param i: int32, n: int32
//@   throws_if i < 0 || i >= n
//@   ensures result == i
//@ js st.js $ok_shr
//@ property S01
//@   param x: int32
//@   ensures result >= 0 && result <= 4294967295 && (result - x) % 4294967296 == 0
//@ js st.js $bad_shr
//@ property S01
//@   param x: int32
//@   ensures result == x
// objects are mutable records: old() must see the value before the write (a state copy owns its records)
//@ js st.js $ok_setlen
//@ property S01
//@   param s: slice
//@   ensures result.$length == 0
//@ js st.js $bad_setlen
//@ property S01
//@   param s: slice
//@   ensures result.$length == old(s.$length)
// descriptors, captured flags, string identities
//@ js st.js $ok_flag
//@ property S01
//@   param f: desc
//@   captured typ: flags comparable
//@   ensures !f.typ.comparable ==> !typ.comparable
//@   ensures f.typ.comparable ==> typ.comparable == old(typ.comparable)
//@ js st.js $bad_flag
//@ property S01
//@   param f: desc
//@   captured typ: flags comparable
//@   ensures !f.typ.comparable ==> !typ.comparable
// value objects with computed keys
//@ js st.js $ok_reccopy
//@ property S01
//@   param dst: rec, src: rec
//@   captured fields: descarr
//@   requires ref(dst) != ref(src)
//@   loop 1 invariant 0 <= i && i <= len(fields) && forall(k, 0, i, dst[fields[k].prop] == old(src[fields[k].prop])) && forall(k, 0, len(fields), src[fields[k].prop] == old(src[fields[k].prop]))
//@   ensures forall(k, 0, len(fields), dst[fields[k].prop] == old(src[fields[k].prop]))
//@ js st.js $bad_reccopy
//@ property S01
//@   param dst: rec, src: rec
//@   captured fields: descarr
//@   requires ref(dst) != ref(src)
//@   loop 1 invariant 1 <= i && (i <= len(fields) || len(fields) == 0) && forall(k, 1, i, dst[fields[k].prop] == old(src[fields[k].prop])) && forall(k, 0, len(fields), src[fields[k].prop] == old(src[fields[k].prop]))
//@   ensures forall(k, 0, len(fields), dst[fields[k].prop] == old(src[fields[k].prop]))
// one-directional clauses with an abstracted remainder
//@ js st.js $ok_tw
//@ property S01
//@   param c: chan, v: num
//@   abstract_rest
//@   throws_when c.$closed
//@ js st.js $bad_tw
//@ property S01
//@   param c: chan, v: num
//@   abstract_rest
//@   throws_when c.$closed
